"""Unit check of the independent reference (simkit/refgr.py) against closed
forms, so that the oracle of C01/C10 does not rest on aurel agreeing with it.

  1. Kasner (p1+p2+p3 = p1^2+p2^2+p3^2 = 1): Ricci = 0, Kretschmann closed form
  2. flat FLRW a(t) = t^q: G_tt = 3 H^2, G_ii = -(2 a a'' + a'^2), R = 6(a''/a + H^2)
  3. de Sitter in flat slicing: R_ab = 3 H^2 g_ab, Weyl = 0
  4. Schwarzschild (isotropic coordinates, Cartesian): Ricci = 0,
     Kretschmann = 48 M^2 / r_areal^6
Run: /venv/bin/python selftest/refgr_closed_forms.py   (exit 0 = all pass)
"""
import sys
sys.path.insert(0, '/verif')
import numpy as np
import sympy as sp
from simkit import refgr


def numeric(gs, coords, pts):
    """g, dg, ddg arrays [.., npts] from a sympy metric via lambdify."""
    n = 4
    f = lambda e: sp.lambdify(coords, e, 'numpy')  # noqa: E731
    P = [np.array(c, dtype=float) for c in zip(*pts)]
    ev = lambda e: np.broadcast_to(np.asarray(f(e)(*P), dtype=float), P[0].shape)  # noqa
    g = np.array([[ev(gs[a, b]) for b in range(n)] for a in range(n)])
    dg = np.array([[[ev(sp.diff(gs[a, b], coords[m])) for b in range(n)]
                    for a in range(n)] for m in range(n)])
    ddg = np.array([[[[ev(sp.diff(gs[a, b], coords[m], coords[k]))
                       for b in range(n)] for a in range(n)]
                     for k in range(n)] for m in range(n)])
    return g, dg, ddg


def main():
    t, x, y, z = sp.symbols('t x y z', positive=True)
    C = [t, x, y, z]
    pts = [(1.3, 0.4, 0.7, 1.1), (2.1, 1.5, 0.2, 0.9), (0.8, 2.2, 1.7, 0.3)]
    ok = True

    def check(name, val, tol=1e-10):
        nonlocal ok
        good = val <= tol
        ok &= bool(good)
        print(f'{"ok " if good else "FAIL"} {name}: {val:.3e}')

    # 1. Kasner
    u = sp.Rational(3, 2)
    den = 1 + u + u * u
    p = [-u / den, (1 + u) / den, u * (1 + u) / den]
    gs = sp.diag(-1, t ** (2 * p[0]), t ** (2 * p[1]), t ** (2 * p[2]))
    cur = refgr.curvature(*numeric(gs, C, pts))
    check('Kasner Ricci = 0', float(np.max(np.abs(cur['Ricci_down4']))))
    tt = np.array([q[0] for q in pts])
    pf = [float(q) for q in p]
    K_exact = 4 * (sum(pf[i] ** 2 * (pf[i] - 1) ** 2 for i in range(3))
                   + sum((pf[i] * pf[j]) ** 2 for i in range(3)
                         for j in range(i + 1, 3))) / tt ** 4
    check('Kasner Kretschmann', float(np.max(np.abs(
        cur['Kretschmann'] / K_exact - 1))))
    check('Kasner Weyl = Riemann', float(np.max(np.abs(
        cur['Weyl_down4'] - cur['Riemann_down4']))))
    # 2. FLRW a = t^q
    q = sp.Rational(2, 3)
    a = t ** q
    gs = sp.diag(-1, a ** 2, a ** 2, a ** 2)
    cur = refgr.curvature(*numeric(gs, C, pts))
    H = float(q) / tt
    add = float(q) * (float(q) - 1) / tt ** 2           # a''/a
    check('FLRW G_tt = 3H^2', float(np.max(np.abs(
        cur['Einstein_down4'][0, 0] - 3 * H ** 2))))
    asq = tt ** (2 * float(q))
    check('FLRW G_xx', float(np.max(np.abs(
        cur['Einstein_down4'][1, 1] + asq * (2 * add + H ** 2)))))
    check('FLRW R', float(np.max(np.abs(cur['RicciS'] - 6 * (add + H ** 2)))))
    check('FLRW Weyl = 0', float(np.max(np.abs(cur['Weyl_down4']))))
    # 3. de Sitter
    Hc = sp.Rational(7, 10)
    a = sp.exp(Hc * t)
    gs = sp.diag(-1, a ** 2, a ** 2, a ** 2)
    g, dg, ddg = numeric(gs, C, pts)
    cur = refgr.curvature(g, dg, ddg, Lambda=3 * float(Hc) ** 2)
    check('de Sitter R_ab = 3H^2 g_ab', float(np.max(np.abs(
        cur['Ricci_down4'] - 3 * float(Hc) ** 2 * g))))
    check('de Sitter T = (G + Lambda g)/kappa = 0', float(np.max(np.abs(
        cur['Tdown4']))))
    check('de Sitter Weyl = 0', float(np.max(np.abs(cur['Weyl_down4']))))
    # 3+1 split of de Sitter: K_ij = -H gamma_ij, alpha = 1, beta = 0
    s31 = refgr.split31(g, dg)
    check('de Sitter K_ij = -H gamma_ij', float(np.max(np.abs(
        s31['Kdown3'] + float(Hc) * g[1:, 1:]))))
    # 4. Schwarzschild, isotropic Cartesian
    M = sp.Rational(1, 2)
    r = sp.sqrt(x ** 2 + y ** 2 + z ** 2)
    psi = 1 + M / (2 * r)
    gs = sp.diag(-((1 - M / (2 * r)) / psi) ** 2, psi ** 4, psi ** 4, psi ** 4)
    g, dg, ddg = numeric(gs, C, pts)
    cur = refgr.curvature(g, dg, ddg)
    check('Schwarzschild Ricci = 0', float(np.max(np.abs(
        cur['Ricci_down4']))), 1e-9)
    rr = np.array([np.sqrt(q[1] ** 2 + q[2] ** 2 + q[3] ** 2) for q in pts])
    R_areal = rr * (1 + float(M) / (2 * rr)) ** 2
    check('Schwarzschild Kretschmann = 48 M^2 / R^6', float(np.max(np.abs(
        cur['Kretschmann'] / (48 * float(M) ** 2 / R_areal ** 6) - 1))), 1e-9)
    # E/B of Schwarzschild in the static frame: B = 0, E trace-free
    s31 = refgr.split31(g, dg)
    nup = refgr.normal_frame(g, s31)
    E, B = refgr.weyl_EB(g, cur['Weyl_down4'], nup)
    check('Schwarzschild B = 0', float(np.max(np.abs(B))), 1e-9)
    check('Schwarzschild E trace-free', float(np.max(np.abs(np.einsum(
        'ij...,ij...->...', s31['gammaup3'], E[1:, 1:])))), 1e-9)
    print('refgr closed-form self-test:', 'PASS' if ok else 'FAIL')
    return 0 if ok else 1


if __name__ == '__main__':
    sys.exit(main())
