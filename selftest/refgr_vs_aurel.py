"""Validate refgr against aurel on an exact-solution input (not a check)."""
import sys, os
sys.path.insert(0, '/verif')
import numpy as np
from simkit import rng as R, spacetimes as st, refgr
import aurel

def rel(a, b):
    return float(np.max(np.abs(a - b)) / (np.max(np.abs(b)) + 1e-300))

def main(seed=1, cls='ON', order=8, zero_shift=False):
    r = R.Rng(seed)
    param = st.gen_grid(r, order, 'no boundary')
    while True:
        spec = st.gen_metric_spec(r, cls, param)
        if zero_shift:
            for m in spec['modes']:
                for a in range(1, 4):
                    m['A'][0][a] = m['A'][a][0] = 0.0
        g, dg, ddg = st.eval_metric(spec, param)
        if st.admissible(g):
            break
    Lam = 0.3
    inputs, ex = st.exact_inputs(spec, param, Lam)
    fd = aurel.FiniteDifference(param, boundary='no boundary', fd_order=order, verbose=False)
    assert fd.x.shape == (param['Nx'], param['Ny'], param['Nz'])
    def fresh():
        rl = aurel.AurelCore(fd, verbose=False, Lambda=Lam)
        for k, v in inputs.items():
            rl.data[k] = np.array(v)
        rl.freeze_data()
        return rl
    cur = ex['cur']
    nup = refgr.normal_frame(ex['g'], ex['s31'])
    E, B = refgr.weyl_EB(ex['g'], cur['Weyl_down4'], nup)
    out = {}
    a = fresh(); out['gdown4'] = rel(a['gdown4'], ex['g'])
    a = fresh(); out['Riemann(fresh)'] = rel(a['st_Riemann_down4'], cur['Riemann_down4'])
    R4 = a['st_Riemann_down4']
    out['  R_ijkl'] = rel(R4[1:,1:,1:,1:], cur['Riemann_down4'][1:,1:,1:,1:])
    out['  R_ijk0'] = rel(R4[1:,1:,1:,0], cur['Riemann_down4'][1:,1:,1:,0])
    out['  R_i0j0'] = rel(R4[1:,0,1:,0], cur['Riemann_down4'][1:,0,1:,0])
    a = fresh(); out['Weyl(EB branch)'] = rel(a['st_Weyl_down4'], cur['Weyl_down4'])
    a = fresh(); a['st_Riemann_down4']; out['Weyl(Riemann branch)'] = rel(a['st_Weyl_down4'], cur['Weyl_down4'])
    a = fresh(); out['eweyl_n'] = rel(a['eweyl_n_down3'], E[1:,1:])
    a = fresh(); out['bweyl_n'] = rel(a['bweyl_n_down3'], B[1:,1:])
    a = fresh(); out['Ricci4(from T)'] = rel(a['st_Ricci_down4'], cur['Ricci_down4'])
    a = fresh(); del a.data['Tdown4']; a.data['Tdown4_hidden']=0
    a = fresh(); out['Gamma4'] = rel(a['st_Gamma_udd4'], cur['Gamma_udd4'])
    a = fresh(); out['Kretschmann'] = rel(a['Kretschmann'], cur['Kretschmann'])
    a = fresh(); out['Hamiltonian/Escale'] = float(np.max(np.abs(a['Hamiltonian_norm'])))
    a = fresh(); out['Momentum/Escale'] = float(np.max(np.abs(a['Momentumx_norm'])))
    for k, v in out.items():
        print(f'{k:24s} {v:.3e}')
    return out

if __name__ == '__main__':
    kw = dict(a.split('=') for a in sys.argv[1:])
    main(int(kw.get('seed', 1)), kw.get('cls', 'ON'), int(kw.get('order', 8)), kw.get('zero_shift', '0') == '1')
