"""MANIFEST.setup_cmd: verify the toolchain that is already on disk."""
import compileall
import os
import subprocess
import sys

VERIF = os.path.dirname(os.path.dirname(os.path.abspath(__file__)))


def main():
    ok = compileall.compile_dir(os.path.join(VERIF, 'simkit'), quiet=1,
                                legacy=False)
    p = subprocess.run(
        ['/venv/bin/python', '-c',
         'import aurel, numpy, h5py, sympy, scipy, os;'
         'print(os.path.dirname(aurel.__file__))'],
        stdout=subprocess.PIPE, text=True)
    src = p.stdout.strip()
    print('aurel imported from', src)
    if p.returncode != 0 or not ok:
        return 1
    if os.path.realpath(src) != os.path.realpath('/repo/src/aurel') \
            and not os.environ.get('VERIF_AUREL_SRC'):
        print('ERROR: aurel is not imported from /repo/src')
        return 1
    return 0


if __name__ == '__main__':
    sys.exit(main())
