"""Harness-side seams for aurel.reading: directory enumeration order.

`glob.glob` and `os.listdir` return entries in file-system order, which
differs between machines.  The simulator owns that order: the real result is
returned under a seeded permutation (DESIGN 2.3).  Installed by rebinding the
names `glob` and `os` inside the aurel.reading module namespace only.
"""
import contextlib
import glob as _glob
import hashlib
import os as _os
import random


# Pre-emption point of the simulated scheduler: called (with a tag) every time
# the reader is about to enumerate a directory or open a data file.  The C18
# engine uses it to let the simulated Einstein Toolkit writer run *inside* a
# catalogue call, not only between calls.
PREEMPT = [None]


def preempt(tag):
    if PREEMPT[0] is not None:
        PREEMPT[0](tag)


class _Order:
    def __init__(self, mode, seed):
        self.mode = mode
        self.seed = seed
        self.calls = 0
        self.permuted = 0

    def apply(self, items, tag):
        self.calls += 1
        items = sorted(items)
        if self.mode == 'sorted' or len(items) < 2:
            return items
        if self.mode == 'reverse':
            self.permuted += 1
            return items[::-1]
        h = int.from_bytes(hashlib.sha256(
            f'{self.seed}|{tag}|{len(items)}'.encode()).digest()[:8], 'big')
        out = list(items)
        random.Random(h).shuffle(out)
        if out != items:
            self.permuted += 1
        return out


class _GlobProxy:
    def __init__(self, order):
        self._o = order

    def glob(self, pattern, *a, **k):
        preempt('glob:' + pattern)
        return self._o.apply(_glob.glob(pattern, *a, **k), 'glob:' + pattern)

    def __getattr__(self, name):
        return getattr(_glob, name)


class _OsProxy:
    def __init__(self, order):
        self._o = order

    def listdir(self, path='.'):
        preempt('listdir:' + str(path))
        return self._o.apply(_os.listdir(path), 'listdir:' + str(path))

    def __getattr__(self, name):
        return getattr(_os, name)


@contextlib.contextmanager
def enumeration_order(mode, seed):
    """mode: 'sorted' | 'reverse' | 'shuffle'."""
    import aurel.reading as rd
    order = _Order(mode, seed)
    old = (rd.glob, rd.os)
    rd.glob = _GlobProxy(order)
    rd.os = _OsProxy(order)
    try:
        yield order
    finally:
        rd.glob, rd.os = old
