"""Command line of the verification kit (invoked through /verif/vcheck).

  vcheck <ID> [--tier quick|thorough] [--runs N]   registered check
  vcheck <ID> --replay FILE                        replay in fresh interpreter
  vcheck --selftest determinism [IDs...]           DESIGN 2.8
  vcheck --setup                                   MANIFEST.setup_cmd
"""
import json
import os
import sys

VERIF = os.path.dirname(os.path.dirname(os.path.abspath(__file__)))
if VERIF not in sys.path:
    sys.path.insert(0, VERIF)
_alt = os.environ.get('VERIF_AUREL_SRC')
if _alt:
    sys.path.insert(0, _alt)


def main(argv):
    from simkit import runner
    if not argv:
        print(__doc__)
        return 2
    if argv[0] == '--_class':
        with open(argv[1]) as f:
            spec = json.load(f)
        runner.class_main(spec['pid'], spec['seed'], spec['tier'],
                          spec['indices'], spec['workers'], spec['out'])
        return 0
    if argv[0] == '--setup':
        from simkit import setup
        return setup.main()
    if argv[0] == '--selftest':
        from simkit import selftest
        return selftest.main(argv[1:])
    pid = argv[0]
    rest = argv[1:]
    if '--_replay_inner' in rest:
        return runner.replay_inner(pid, rest[rest.index('--_replay_inner') + 1])
    if '--_shrink_inner' in rest:
        return runner.shrink_inner(pid, rest[rest.index('--_shrink_inner') + 1])
    if '--replay' in rest:
        rc, out = runner.replay_file(rest[rest.index('--replay') + 1])
        print(out, end='')
        return rc
    tier = os.environ.get('VERIF_TIER', 'quick')
    if '--tier' in rest:
        tier = rest[rest.index('--tier') + 1]
    n = None
    if '--runs' in rest:
        n = int(rest[rest.index('--runs') + 1])
    seed = int(os.environ.get('VERIF_SEED', '0') or 0)
    return runner.check(pid, tier, seed, n)


if __name__ == '__main__':
    sys.exit(main(sys.argv[1:]))
