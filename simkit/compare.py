"""Tolerant nested comparison (DESIGN 3.2)."""
import numpy as np


def leaves(v, path=''):
    """Yield (path, leaf) for nested lists/tuples/dicts; arrays are leaves."""
    if isinstance(v, dict):
        for k in sorted(v, key=repr):
            yield from leaves(v[k], f'{path}[{k!r}]')
    elif isinstance(v, (list, tuple)):
        for i, x in enumerate(v):
            yield from leaves(x, f'{path}[{i}]')
    else:
        yield path, v


def maxabs(v):
    m = 0.0
    for _, x in leaves(v):
        if x is None or callable(x):
            continue
        a = np.asarray(x)
        if a.size and a.dtype.kind in 'fciu':
            with np.errstate(invalid='ignore'):
                f = np.abs(a[np.isfinite(a)]) if a.dtype.kind in 'fc' else \
                    np.abs(a)
            if f.size:
                m = max(m, float(f.max()))
    return m


def differ(a, b, rtol, atol):
    """None if a ~ b, else (path, description, abs_discrepancy, scale)."""
    la, lb = list(leaves(a)), list(leaves(b))
    if [p for p, _ in la] != [p for p, _ in lb]:
        return ('', f'structure differs: {[p for p, _ in la][:6]} vs '
                    f'{[p for p, _ in lb][:6]}', float('inf'), 1.0)
    scale = maxabs(b)
    worst = None
    for (p, x), (_, y) in zip(la, lb):
        if x is None or y is None:
            if not (x is None and y is None):
                return (p, f'None vs value ({type(x).__name__} vs '
                           f'{type(y).__name__})', float('inf'), scale)
            continue
        xa, ya = np.asarray(x), np.asarray(y)
        if xa.shape != ya.shape:
            return (p, f'shape {xa.shape} vs {ya.shape}', float('inf'),
                    scale)
        if xa.dtype.kind not in 'fciub' or ya.dtype.kind not in 'fciub':
            if not np.array_equal(xa, ya):
                return (p, 'non-numeric values differ', float('inf'), scale)
            continue
        nx, ny = np.isnan(xa) if xa.dtype.kind in 'fc' else np.zeros(
            xa.shape, bool), np.isnan(ya) if ya.dtype.kind in 'fc' else \
            np.zeros(ya.shape, bool)
        if (nx != ny).any():
            return (p, f'NaN pattern differs ({int(nx.sum())} vs '
                       f'{int(ny.sum())} NaNs)', float('inf'), scale)
        with np.errstate(invalid='ignore'):
            d = np.abs(np.where(nx, 0, xa) - np.where(ny, 0, ya))
        d = np.where(np.isfinite(d), d, np.where(
            np.where(nx, 0, xa) == np.where(ny, 0, ya), 0, np.inf))
        m = float(d.max()) if d.size else 0.0
        if m > rtol * scale + atol:
            idx = np.unravel_index(int(np.argmax(d)), d.shape) if d.size \
                else ()
            desc = (f'max |diff| = {m:.3e} at {p}{list(map(int, idx))} '
                    f'(got {xa[idx]!r}, reference {ya[idx]!r}; scale '
                    f'{scale:.3e}, allowed {rtol * scale + atol:.3e})')
            if worst is None or m > worst[2]:
                worst = (p, desc, m, scale)
    return worst
