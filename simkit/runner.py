"""Driver: seeds -> runs -> violations -> minimise -> replay -> evidence.

Process layout (DESIGN 2.1 / 2.7):

  parent (this file, never imports aurel)
    for each PYTHONHASHSEED class k:
      child interpreter  PYTHONHASHSEED=HASHSEEDS[k]  `cli.py <ID> --_class ...`
        fork pool of workers, one simulated run per task, per-run alarm

The hash seed of run i is a function of its run seed only, so results do not
depend on scheduling or worker count.  Results are merged in run-index order.
Exit codes: 0 held, 1 violation (not listed as known), 2 harness error.
"""
import concurrent.futures as cf
import importlib
import json
import multiprocessing
import os
import shutil
import signal
import subprocess
import sys
import time
import traceback

from . import ENGINE_VERSION, findings, rng as rngmod, shrink as shrinkmod

VERIF = os.path.dirname(os.path.dirname(os.path.abspath(__file__)))
PY = '/venv/bin/python'
CLI = os.path.join(VERIF, 'simkit', 'cli.py')
HASHSEEDS = [0, 1, 17, 101, 4242, 31337]
NPROC = int(os.environ.get('VERIF_NPROC', '0')) or (os.cpu_count() or 4)


def scratch_root():
    for base in ('/dev/shm', os.environ.get('TMPDIR', ''), '/var/tmp'):
        if base and os.path.isdir(base) and os.access(base, os.W_OK):
            return base
    return VERIF


def load_prop(pid):
    return importlib.import_module(f'simkit.props.{pid}')


class RunTimeout(BaseException):
    pass


def _alarm(signum, frame):
    raise RunTimeout()


# ---------------------------------------------------------------------------
# one run, inside a worker
# ---------------------------------------------------------------------------

_WORKER_N = [0]


def execute_run(prop, run, timeout):
    """Execute one recorded run in a private scratch directory."""
    _WORKER_N[0] += 1
    d = os.path.join(scratch_root(),
                     f'aurel-verif-{os.getpid()}-{_WORKER_N[0]}')
    os.makedirs(d, exist_ok=True)
    cwd = os.getcwd()
    os.chdir(d)
    old = signal.signal(signal.SIGALRM, _alarm)
    signal.setitimer(signal.ITIMER_REAL, timeout)
    devnull = open(os.devnull, 'w')
    saved_out = sys.stdout
    sys.stdout = devnull
    try:
        res = prop.execute(run)
        res.setdefault('violations', [])
        res['harness_error'] = None
    except RunTimeout:
        res = {'violations': [], 'harness_error': f'timeout>{timeout}s'}
    except BaseException as e:           # harness bug, never a VIOLATION
        res = {'violations': [],
               'harness_error': f'{type(e).__name__}: {e}\n'
               + traceback.format_exc(limit=12)}
    finally:
        signal.setitimer(signal.ITIMER_REAL, 0)
        signal.signal(signal.SIGALRM, old)
        sys.stdout = saved_out
        devnull.close()
        os.chdir(cwd)
        shutil.rmtree(d, ignore_errors=True)
    return res


ISOLATE = os.environ.get('VERIF_NO_ISOLATE') is None


def isolated(fn, arg, budget):
    """Run fn(arg) in a forked child and return its JSON-able result.

    Returns None if the child died or exceeded `budget` seconds."""
    import select
    rfd, wfd = os.pipe()
    child = os.fork()
    if child == 0:
        code = 0
        try:
            os.close(rfd)
            data = json.dumps(fn(arg), default=_jd).encode()
            view = memoryview(data)
            while view:
                n = os.write(wfd, view[:1 << 16])
                view = view[n:]
        except BaseException:
            code = 1
        finally:
            os._exit(code)
    os.close(wfd)
    chunks = []
    deadline = time.time() + budget
    while True:
        left = deadline - time.time()
        if left <= 0:
            break
        ready, _, _ = select.select([rfd], [], [], min(left, 5.0))
        if ready:
            b = os.read(rfd, 1 << 20)
            if not b:
                break
            chunks.append(b)
    os.close(rfd)
    try:
        if time.time() >= deadline:
            os.kill(child, signal.SIGKILL)
        os.waitpid(child, 0)
    except OSError:
        pass
    try:
        return json.loads(b''.join(chunks).decode())
    except ValueError:
        return None


def _task(args):
    """One simulated run, executed in a forked child of the pool worker.

    The worker itself never executes SUT code, so every run starts from the
    same pristine module state (imports + warm-up only): module-level state
    inside aurel (or numpy/h5py) cannot leak from one run into the next, which
    keeps a run a pure function of its seed whatever ran before it.
    """
    if not ISOLATE:
        return _task_inner(args)
    prop = load_prop(args[0])
    res = isolated(_task_inner, args, prop.RUN_TIMEOUT * 1.5 + 30)
    if res is None:
        seed = rngmod.run_seed(args[0], args[1], args[3])
        res = {'violations': [], 'index': args[3], 'seed': seed,
               'harness_error': 'run child died or hung without a result'}
    return res


def _task_inner(args):
    pid, verif_seed, tier, index = args
    prop = load_prop(pid)
    seed = rngmod.run_seed(pid, verif_seed, index)
    try:
        run = prop.generate(rngmod.Rng(seed), tier)
    except Exception as e:  # noqa: BLE001 - generator bug, never a VIOLATION
        return {'violations': [], 'index': index, 'seed': seed,
                'harness_error': f'generate: {type(e).__name__}: {e}\n'
                + traceback.format_exc(limit=8)}
    run['seed'] = seed
    run['index'] = index
    res = execute_run(prop, run, prop.RUN_TIMEOUT)
    res['index'] = index
    res['seed'] = seed
    if res['violations'] or res['harness_error']:
        res['run'] = run
    elif index < 4:
        res['sample'] = run
    return res


def class_main(pid, verif_seed, tier, indices, workers, out):
    """Child interpreter entry: execute the given run indices, write JSONL."""
    os.environ.setdefault('OMP_NUM_THREADS', '1')
    prop = load_prop(pid)
    # warm-up: import the SUT once here so that the pool workers and the
    # per-run children forked from them inherit the loaded (but never
    # exercised) modules instead of importing them again in every run
    import aurel                                    # noqa: F401
    import aurel.reading, aurel.time, aurel.coresymbolic  # noqa: F401,E401
    import h5py                                     # noqa: F401
    if hasattr(prop, 'warmup'):
        prop.warmup()
    tasks = [(pid, verif_seed, tier, i) for i in indices]
    t0 = time.time()
    with open(out, 'w') as fo:
        if workers <= 1:
            for t in tasks:
                fo.write(json.dumps(_task(t), default=_jd) + '\n')
        else:
            ctx = multiprocessing.get_context('fork')
            with cf.ProcessPoolExecutor(max_workers=workers,
                                        mp_context=ctx) as ex:
                chunk = max(1, min(16, len(tasks) // (workers * 8) or 1))
                for res in ex.map(_task, tasks, chunksize=chunk):
                    fo.write(json.dumps(res, default=_jd) + '\n')
        fo.write(json.dumps({'_done': True, 'wall': time.time() - t0}) + '\n')


def _jd(o):
    import numpy as np
    if isinstance(o, np.integer):
        return int(o)
    if isinstance(o, np.floating):
        return float(o)
    if isinstance(o, np.ndarray):
        return o.tolist()
    if isinstance(o, (set, frozenset)):
        return sorted(o)
    return repr(o)


# ---------------------------------------------------------------------------
# parent side
# ---------------------------------------------------------------------------

def child_env(hashseed):
    env = dict(os.environ)
    env['PYTHONHASHSEED'] = str(hashseed)
    for k in ('OMP_NUM_THREADS', 'OPENBLAS_NUM_THREADS', 'MKL_NUM_THREADS',
              'NUMEXPR_NUM_THREADS'):
        env[k] = '1'
    env['PYTHONDONTWRITEBYTECODE'] = '1'
    env['PYTHONPATH'] = VERIF + os.pathsep + env.get('PYTHONPATH', '')
    env.pop('SIMLOC', None)
    return env


def spawn_class(pid, verif_seed, tier, k, indices, workers, tag, wall_cap):
    out = os.path.join(scratch_root(),
                       f'aurel-verif-out-{os.getpid()}-{tag}-{k}.jsonl')
    specfile = out + '.spec'
    with open(specfile, 'w') as f:      # (a long index list does not fit argv)
        json.dump({'pid': pid, 'seed': verif_seed, 'tier': tier,
                   'indices': indices, 'workers': workers, 'out': out}, f)
    p = subprocess.run([PY, CLI, '--_class', specfile],
                       env=child_env(HASHSEEDS[k]), cwd=VERIF,
                       stdout=subprocess.PIPE, stderr=subprocess.PIPE,
                       text=True, timeout=wall_cap)
    results, done = [], False
    if os.path.exists(out):
        with open(out) as f:
            for line in f:
                r = json.loads(line)
                if r.get('_done'):
                    done = True
                else:
                    r['hashseed'] = HASHSEEDS[k]
                    results.append(r)
        os.remove(out)
    if os.path.exists(specfile):
        os.remove(specfile)
    if p.returncode != 0 or not done:
        raise HarnessError(
            f'class {k} child failed rc={p.returncode}\n'
            + p.stderr[-3000:])
    return results


class HarnessError(Exception):
    pass


def run_indices(pid, verif_seed, tier, indices, nclasses, workers, tag,
                wall_cap):
    by_class = {}
    for i in indices:
        k = rngmod.hash_class(rngmod.run_seed(pid, verif_seed, i), nclasses)
        by_class.setdefault(k, []).append(i)
    results = []
    for k in sorted(by_class):
        results += spawn_class(pid, verif_seed, tier, k, by_class[k],
                               workers, tag, wall_cap)
    results.sort(key=lambda r: r['index'])
    return results


def replay_file(path, quiet=False):
    """Run a replay file in a fresh interpreter; returns (rc, stdout)."""
    with open(path) as f:
        rp = json.load(f)
    p = subprocess.run([PY, CLI, rp['property'], '--_replay_inner', path],
                       env=child_env(rp['hashseed']), cwd=VERIF,
                       stdout=subprocess.PIPE, stderr=subprocess.PIPE,
                       text=True, timeout=1800)
    return p.returncode, p.stdout + (p.stderr if p.returncode == 2 else '')


def replay_inner(pid, path):
    """Inside the fresh interpreter (hash seed already set)."""
    with open(path) as f:
        rp = json.load(f)
    prop = load_prop(pid)
    res = execute_run(prop, rp['run'], prop.RUN_TIMEOUT * 4)
    if res['harness_error']:
        print('HARNESS-ERROR', res['harness_error'])
        return 2
    sigs = [v['sig'] for v in res['violations']]
    for v in res['violations']:
        print(f"  replayed: {v['sig']} :: {v['msg']}")
    if rp['sig'] in sigs:
        print(f"VIOLATION property={pid} replay={path}")
        return 1
    print(f"not reproduced: expected {rp['sig']} got {sigs}")
    return 0


def shrink_inner(pid, path):
    """Child entry: minimise the run in a replay file in place."""
    with open(path) as f:
        rp = json.load(f)
    prop = load_prop(pid)
    sig = rp['sig']

    def fails(run):
        # every candidate in its own forked child: state left behind by an
        # earlier candidate must not make a later one fail (or pass)
        res = isolated(lambda r: execute_run(prop, r, prop.RUN_TIMEOUT), run,
                       prop.RUN_TIMEOUT * 1.5 + 30) if ISOLATE else \
            execute_run(prop, run, prop.RUN_TIMEOUT)
        if res is None or res['harness_error']:
            return None
        for v in res['violations']:
            if v['sig'] == sig:
                return v
        return None

    v0 = fails(rp['run'])
    if v0 is None:
        print('shrink: could not confirm')
        return 3
    n0 = len(rp['run'].get('ops', []))
    run, v, tries = shrinkmod.minimise(prop, rp['run'], fails,
                                       budget_s=rp.get('shrink_s', 120),
                                       budget_n=300)
    rp['run'] = run
    rp['msg'] = (v or v0)['msg']
    rp['minimised_from_ops'] = n0
    rp['minimise_executions'] = tries
    with open(path, 'w') as f:
        json.dump(rp, f, indent=1, default=_jd)
    return 0


def check(pid, tier, verif_seed, n_override=None):
    """The registered check.  Returns the exit code."""
    t0 = time.time()
    prop = load_prop(pid)
    nclasses = getattr(prop, 'HASH_CLASSES', 1)
    n = n_override or prop.RUNS[tier]
    wall_cap = getattr(prop, 'WALL_CAP', {'quick': 1500, 'thorough': 14400})[
        tier]
    workers = NPROC
    print(f'[{pid}] tier={tier} VERIF_SEED={verif_seed} runs={n} '
          f'hash_classes={nclasses} workers={workers}', flush=True)
    src = subprocess.run(
        [PY, '-c', 'import os,sys\n'
         'a=os.environ.get("VERIF_AUREL_SRC")\n'
         'if a: sys.path.insert(0,a)\n'
         'import aurel;print(os.path.dirname(aurel.__file__))'],
        env=child_env(0), cwd=VERIF, stdout=subprocess.PIPE, text=True
    ).stdout.strip()
    print(f'[{pid}] aurel under test: {src}', flush=True)

    try:
        # -- determinism gate: a few runs twice, different worker count -----
        nd = min(n, getattr(prop, 'DETERMINISM_RUNS', 12))
        det_a = run_indices(pid, verif_seed, tier, list(range(nd)), nclasses,
                            3, 'detA', wall_cap)
        results = run_indices(pid, verif_seed, tier, list(range(n)),
                              nclasses, workers, 'main', wall_cap)
    except HarnessError as e:
        print(f'[{pid}] HARNESS-ERROR {e}', flush=True)
        return 2
    except subprocess.TimeoutExpired:
        print(f'[{pid}] HARNESS-ERROR wall cap {wall_cap}s exceeded',
              flush=True)
        return 2
    def _same(a, b):
        # a run that hit its wall-clock budget (counted as inconclusive by the
        # engine) has no comparable trace: wall time is the one thing the
        # simulator does not own
        da, db = str(a.get('digest')), str(b.get('digest'))
        if da.startswith('inconclusive') or db.startswith('inconclusive') \
                or a.get('harness_error') or b.get('harness_error'):
            return True
        return da == db
    det_ok = all(_same(a, b) for a, b in zip(det_a, results[:nd]))
    if not det_ok:
        bad = [a['index'] for a, b in zip(det_a, results[:nd])
               if not _same(a, b)]
        print(f'[{pid}] HARNESS-ERROR determinism gate failed for runs {bad}',
              flush=True)
        return 2

    herr = [r for r in results if r.get('harness_error')]
    # -- violations ---------------------------------------------------------
    known = findings.load(pid)
    by_sig = {}
    for r in results:
        for v in r['violations']:
            by_sig.setdefault(v['sig'], []).append((r, v))
    new_violations, known_hit = [], {}
    os.makedirs(os.path.join(VERIF, 'replays'), exist_ok=True)
    # minimisation is bounded per invocation: the first MAX_SHRINK new
    # signatures are minimised (ddmin + simplifiers), further ones are only
    # confirmed by replaying their unminimised run twice
    MAX_SHRINK = int(os.environ.get('VERIF_MAX_SHRINK', '6'))
    n_shrunk = 0
    MAX_REPORT = int(os.environ.get('VERIF_MAX_REPORT', '12'))
    skipped_sigs = 0
    for sig in sorted(by_sig):
        if len(new_violations) >= MAX_REPORT:
            # a change that breaks everything produces hundreds of
            # signatures; a dozen confirmed replay files are enough
            if findings.match(known, sig) is None:
                skipped_sigs += 1
            continue
        kf = findings.match(known, sig)
        r, v = min(by_sig[sig], key=lambda rv: (len(rv[0]['run'].get(
            'ops', [])), rv[0]['index']))
        if kf is not None:
            known_hit[kf['signature']] = known_hit.get(
                kf['signature'], 0) + len(by_sig[sig])
            continue
        path = os.path.join(
            VERIF, 'replays',
            f"{pid}-{findings.slug(sig)}-{r['seed']:016x}.json")
        rp = {'property': pid, 'sig': sig, 'msg': v['msg'],
              'seed': r['seed'], 'index': r['index'],
              'verif_seed': verif_seed, 'tier': tier,
              'hashseed': r['hashseed'], 'engine_version': ENGINE_VERSION,
              'run': r['run'], 'shrink_s': (
                  (120 if tier == 'quick' else 300)
                  if n_shrunk < MAX_SHRINK else 0)}
        n_shrunk += 1
        with open(path, 'w') as f:
            json.dump(rp, f, indent=1, default=_jd)
        sp = subprocess.run([PY, CLI, pid, '--_shrink_inner', path],
                            env=child_env(r['hashseed']), cwd=VERIF,
                            stdout=subprocess.PIPE, stderr=subprocess.PIPE,
                            text=True)
        if sp.returncode == 3:
            print(f'[{pid}] HARNESS-ERROR violation {sig} of run '
                  f"{r['index']} did not reproduce in a fresh interpreter",
                  flush=True)
            herr.append({'index': r['index'],
                         'harness_error': 'non-reproducible ' + sig})
            continue
        rc1, out1 = replay_file(path)
        rc2, out2 = replay_file(path)
        if rc1 != 1 or rc2 != 1:
            print(f'[{pid}] HARNESS-ERROR minimised replay unstable '
                  f'({rc1},{rc2}) for {sig}', flush=True)
            herr.append({'index': r['index'],
                         'harness_error': 'unstable replay ' + sig})
            continue
        with open(path) as f:
            rp = json.load(f)
        new_violations.append((sig, path, rp, len(by_sig[sig])))

    # every listed known finding is re-confirmed from its committed witness
    # (fresh interpreter) and printed, whether or not this batch sampled it
    for kf in known:
        if kf.get('status') != 'known':
            continue
        n = known_hit.get(kf['signature'], 0)
        wit = kf.get('witness')
        still = None
        if wit and os.path.exists(os.path.join(VERIF, wit)):
            rc, _ = replay_file(os.path.join(VERIF, wit))
            still = (rc == 1)
        if still or (still is None and n):
            print(f"KNOWN-FINDING: property={pid} {kf['what']} "
                  f"[sig {kf['signature']}; hit in {n} run(s) of this batch;"
                  f" witness {wit} reproduces]", flush=True)
            known_hit.setdefault(kf['signature'], n)
        else:
            print(f"[{pid}] note: listed known finding {kf['signature']} no "
                  f"longer reproduces from {wit} ({n} hits in this batch)",
                  flush=True)
    if skipped_sigs:
        print(f'[{pid}] {skipped_sigs} further violation signature(s) were '
              f'seen but not processed (limit {MAX_REPORT} per invocation)',
              flush=True)
    for sig, path, rp, cnt in new_violations:
        print(f'VIOLATION property={pid} replay={path}')
        print(f"  sig={sig} seed={rp['seed']:016x} hashseed={rp['hashseed']}"
              f" ops={len(rp['run'].get('ops', []))} (minimised from "
              f"{rp.get('minimised_from_ops')}) seen in {cnt} run(s)")
        print(f"  {rp['msg']}", flush=True)

    wall = time.time() - t0
    write_evidence(prop, pid, tier, verif_seed, results, wall, nclasses,
                   new_violations, known_hit, herr, nd)
    for h in herr[:5]:
        print(f"[{pid}] HARNESS-ERROR run {h.get('index')}: "
              f"{str(h['harness_error'])[:1500]}", flush=True)
    ok_runs = len(results) - len(herr)
    print(f'[{pid}] {len(results)} runs, {len(new_violations)} new '
          f'violation signature(s), {len(known_hit)} known finding(s), '
          f'{len(herr)} harness error(s), {wall:.0f}s', flush=True)
    if new_violations:
        return 1
    # a violation that could not be replayed is never swallowed: it is a
    # harness error (exit 2) however few runs showed it
    if any('unstable replay' in str(h['harness_error'])
           or 'non-reproducible' in str(h['harness_error']) for h in herr):
        return 2
    if herr and (len(herr) > max(2, 0.01 * len(results)) or ok_runs == 0):
        return 2
    return 0


def write_evidence(prop, pid, tier, verif_seed, results, wall, nclasses,
                   new_violations, known_hit, herr, nd):
    good = [r for r in results if not r.get('harness_error')]
    faults, probes, logical = {}, {}, {}
    sigs = set()
    vac = inconc = ops = 0
    for r in good:
        for k, c in (r.get('faults') or {}).items():
            faults[k] = faults.get(k, 0) + c
        for k, c in (r.get('probes') or {}).items():
            probes[k] = probes.get(k, 0) + c
        for k, c in (r.get('logical') or {}).items():
            logical[k] = logical.get(k, 0) + c
        vac += r.get('vacuous', 0)
        inconc += r.get('inconclusive', 0)
        ops += r.get('n_ops', 0)
        if r.get('nontrivial') and r.get('state_sig'):
            sigs.add(r['state_sig'])
    all_probes = list(getattr(prop, 'PROBES', []))
    zero = sorted(p for p in all_probes if not probes.get(p))
    samples = []
    for r in results:
        if 'sample' in r and len(samples) < 3:
            s = r['sample']
            samples.append({'seed': f"{r['seed']:016x}",
                            'config': s.get('config'),
                            'ops': s.get('ops', [])[:12],
                            'n_ops': len(s.get('ops', []))})
    ev = {
        'property_id': pid, 'tier': tier, 'seed': int(verif_seed),
        'level': 'exploration',
        'coverage': {
            'evaluations': len(good),
            'distinct_nontrivial': len(sigs),
            'rule': prop.RULE,
            'samples': samples or [{'note': 'no sample captured'}],
            'ops_executed': ops,
            'runs_per_hour': round(len(good) / wall * 3600) if wall else 0,
            'seeds_per_hour': round(len(good) / wall * 3600) if wall else 0,
            'simulated_time_logical_units': logical,
            'faults_fired': dict(sorted(faults.items())),
            'probes_hit': dict(sorted(probes.items())),
            'probes_stuck_at_zero': zero,
            'vacuous_ops': vac,
            'inconclusive_comparisons': inconc,
            'hash_seed_classes': [HASHSEEDS[k] for k in range(nclasses)],
            'workers': NPROC,
            'determinism_gate': f'{nd} runs executed twice (3 vs {NPROC} '
                                'workers, fresh interpreters): digests equal',
            'components': getattr(prop, 'COMPONENTS', {}),
            'known_findings_hit': known_hit,
            'harness_errors': len(herr),
            'violation_signatures': [s for s, _, _, _ in new_violations],
            'engine_version': ENGINE_VERSION,
        },
        'assumptions': list(getattr(prop, 'ASSUMPTIONS', [])),
        'wall_s': round(wall, 2),
        'violations': len(new_violations),
    }
    # VERIF_EVIDENCE_DIR: sensitivity runs against a deliberately broken tree
    # (tools/seed_eval.py) must not overwrite the evidence of the real tree
    evdir = os.environ.get('VERIF_EVIDENCE_DIR') or os.path.join(VERIF,
                                                                 'evidence')
    os.makedirs(evdir, exist_ok=True)
    with open(os.path.join(evdir, f'{pid}.json'), 'w') as f:
        json.dump(ev, f, indent=1, default=_jd)
    if zero:
        print(f'[{pid}] WARNING probes stuck at zero: {zero}', flush=True)
