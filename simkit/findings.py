"""known_findings.json: read-only at run time (DESIGN 2.7).

Entry: {"property": "C13", "signature": "<exact sig or fnmatch pattern>",
        "status": "known" | "fixed", "what": "...", "witness": "findings/..",
        "commit": "<sha, for fixed>"}
Only status == "known" suppresses (turns a VIOLATION into KNOWN-FINDING);
"fixed" entries are documentation and suppress nothing.
"""
import fnmatch
import json
import os
import re

VERIF = os.path.dirname(os.path.dirname(os.path.abspath(__file__)))
PATH = os.path.join(VERIF, 'known_findings.json')


def load(pid):
    if not os.path.exists(PATH):
        return []
    with open(PATH) as f:
        data = json.load(f)
    return [e for e in data.get('findings', []) if e.get('property') == pid]


def match(entries, sig):
    for e in entries:
        if e.get('status') != 'known':
            continue
        if e['signature'] == sig or fnmatch.fnmatchcase(sig, e['signature']):
            return e
    return None


def slug(sig):
    return re.sub(r'[^A-Za-z0-9_.-]+', '_', sig)[:80]
