"""C02 - requests never modify inputs or handed-out values.

Three workloads, chosen per run by the seed (run['kind']):

  core  (70 %)  the C01 request histories (coresim) with a registry of every
                array the user supplied (inputs, helper arguments) or an
                earlier request returned - checksum at hand-out time, strong
                reference (outlives eviction), read-only flag (turns a silent
                in-place write into an exception naming the source line).
                TOUCH_ALL ops (the user looks at everything cached) make all
                cached arrays count as handed out.
  time  (15 %)  the C14 over_time workload; only the clauses "per-time-step
                arrays and argument lists passed to the driver are left
                untouched" are reported here (mutation:*, args_mutated:*,
                input_column_not_preserved).
  io    (12 %)  the C13 save_data/read_data workload; only args_mutated:*
                is reported here.
  et    ( 8 %)  the C11 read_data-on-ET-output workload (incl. checkpoint
                reads); only args_mutated:* is reported here.

DESIGN 4 / C02.
"""
from . import _core_common as cc

PROP = 'C02'
ENGINE = 'coresim+timesim+iosim'
HASH_CLASSES = 1
RUNS = {'quick': 2400, 'thorough': 30000}
RUN_TIMEOUT = 300
DETERMINISM_RUNS = 10
RULE = ("70% of runs: generator of C01 (non-flat, mostly non-vacuum "
        "spacetimes; seeded eviction knobs) biased to 'request A, keep the "
        "array, request something that consumes A' (consumer chains, deep "
        "keys after TOUCH_ALL, both tetrads equally); after every op the "
        "checksums of ALL arrays supplied or returned so far are recomputed "
        "and all of them are flagged read-only. 15%: C14's over_time "
        "workload (input columns registered read-only + checksummed, "
        "vars/estimates/data arguments digested before/after each call). "
        "15%: C13's save_data/read_data workload (argument digests). "
        "Non-trivial: core: >=3 result arrays monitored when a later op ran "
        "and an eviction fired; time: >=2 steps and >=1 estimate; io: >=1 "
        "save with explicit vars. Distinct = the workload's own measure.")
PROBES = ['eviction', 'cache_hit_request', 'arrays_monitored',
          'helper_args_monitored', 'touch_all', 'kind_core', 'kind_time',
          'kind_io', 'kind_et']
COMPONENTS = dict(cc.COMPONENTS)
COMPONENTS['aurel.time.over_time, aurel.reading.save_data/read_data'] = \
    'real (C14 / C13 workloads, mutation oracles only)'
ASSUMPTIONS = [
    'setting the read-only flag on arrays that were handed to / returned by '
    'the library does not change any value the library computes (it only '
    'turns an in-place write into an exception)',
    'arrays cached internally but never returned to the caller are outside '
    'this property (their corruption is C01\'s subject); TOUCH_ALL ops hand '
    'them out legitimately (pure cache hits)']

_KEEP_TIME = ('mutation:', 'args_mutated:', 'input_column_not_preserved')
_KEEP_IO = ('args_mutated:', 'mutation:')


warmup = cc.warmup


def generate(rng, tier):
    kind = rng.child('c02kind').weighted([('core', 65), ('time', 15),
                                          ('io', 12), ('et', 8)])
    if kind == 'time':
        from . import C14
        run = C14.generate(rng, tier)
    elif kind == 'io':
        from . import C13
        run = C13.generate(rng, tier)
    elif kind == 'et':
        from . import C11
        run = C11.generate(rng, tier)
    else:
        run = cc.generate(rng, tier, 'C02')
    run['kind'] = kind
    return run


def fixup(run):
    if run.get('kind') == 'time':
        from . import C14
        r = C14.fixup(run)
    elif run.get('kind') == 'io':
        from . import C13
        r = C13.fixup(run)
    elif run.get('kind') == 'et':
        from . import C11
        r = C11.fixup(run)
    else:
        r = cc.fixup(run)
    if r is not None:
        r['kind'] = run.get('kind', 'core')
    return r


def simplify(run):
    kind = run.get('kind', 'core')
    if kind == 'time':
        from . import C14
        gen = C14.simplify(run)
    elif kind == 'io':
        from . import C13
        gen = C13.simplify(run)
    elif kind == 'et':
        from . import C11
        gen = C11.simplify(run)
    else:
        gen = cc.simplify(run)
    for c in gen:
        c['kind'] = kind
        yield c


def execute(run):
    kind = run.get('kind', 'core')
    if kind == 'time':
        from . import C14
        res = C14.execute(run)
        res['violations'] = [v for v in res['violations']
                             if v['sig'].startswith(_KEEP_TIME)]
        res['nontrivial'] = run['nsteps'] >= 2 and bool(run['ests'])
    elif kind == 'io':
        from . import C13
        res = C13.execute(run)
        res['violations'] = [v for v in res['violations']
                             if v['sig'].startswith(_KEEP_IO)]
        res['nontrivial'] = any(o['op'] == 'save' and o['vars']
                                for o in run['ops'])
    elif kind == 'et':
        # read_data on Einstein Toolkit output (incl. usecheckpoints=True):
        # only the "argument lists are left untouched" clause is reported
        from . import C11
        res = C11.execute(run)
        res['violations'] = [v for v in res['violations']
                             if v['sig'].startswith(_KEEP_IO)]
        res['nontrivial'] = any(o['op'] == 'read' for o in run['ops'])
    else:
        from .. import coresim
        eng = coresim.Engine(run, 'C02', {'C02'})
        eng.execute()
        res = eng.result({'C02'}, nontrivial=(
            getattr(eng, 'n_monitored', 0) - len(eng.world.data) >= 3
            and eng.faults.get('eviction')))
    res.setdefault('probes', {})
    res['probes']['kind_' + kind] = 1
    res['state_sig'] = kind + ':' + str(res.get('state_sig'))
    return res
