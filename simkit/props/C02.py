"""C02 - requests never modify inputs or handed-out values (coresim part).

Registry of every array the user supplied (inputs, helper arguments) or an
earlier request returned, each with a checksum at hand-out time, a strong
reference (so it outlives eviction) and the read-only flag set, which turns a
silent in-place write into an exception that names the source line.
The over_time / save_data / read_data argument clauses are monitored inside
the C14 / C13 / C12 workloads (see those modules).  DESIGN 4 / C02.
"""
from . import _core_common as cc

PROP = 'C02'
ENGINE = 'coresim'
HASH_CLASSES = 1
RUNS = {'quick': 1200, 'thorough': 30000}
RUN_TIMEOUT = 240
DETERMINISM_RUNS = 8
RULE = ("Same generator as C01 (non-flat, mostly non-vacuum spacetimes; "
        "guard-aware histories; seeded eviction knobs), biased to 'request "
        "A, keep the array, request something that consumes A'. After every "
        "op the checksums of ALL arrays supplied or returned so far are "
        "recomputed; all of them are also flagged read-only. Non-trivial: "
        ">=3 result arrays were being monitored when a later op ran AND an "
        "eviction fired. Distinct = as C01.")
PROBES = ['eviction', 'cache_hit_request', 'arrays_monitored',
          'helper_args_monitored']
COMPONENTS = cc.COMPONENTS
ASSUMPTIONS = [
    'setting the read-only flag on arrays that were handed to / returned by '
    'the library does not change any value the library computes (it only '
    'turns an in-place write into an exception)',
    'arrays cached internally but never returned to the caller are outside '
    'this property (their corruption is C01\'s subject)']


def generate(rng, tier):
    return cc.generate(rng, tier, 'C02')


fixup = cc.fixup
simplify = cc.simplify


def execute(run):
    from .. import coresim
    eng = coresim.Engine(run, 'C02', {'C02'})
    eng.execute()
    return eng.result({'C02'}, nontrivial=(
        getattr(eng, 'n_monitored', 0) - len(eng.world.data) >= 3
        and eng.faults.get('eviction')))
