"""C18 - catalogues and name parsing are faithful and stable across calls.

System: etsim as a *concurrently progressing writer* (output / checkpoint /
crash + new restart / finish events) and the real catalogue functions
(iterations, read_iterations, get_content, parse_hdf5_key, parse_h5file,
parameters) as the reader, interleaved by the seeded schedule at call
granularity (exact for the documented protocol: with skip_last=True the
reader only touches completed restarts, which the writer never modifies).
Oracle: writer's ground truth; file <-> memory round trip; incremental ==
one fresh scan of a pristine copy.  DESIGN.md section 4 / C18.
"""
import copy
import os
import shutil

import numpy as np

from .. import etsim, iosim, seams_fs, seams_h5
from ..digest import Trace, digest

PROP = 'C18'
ENGINE = 'etsim+iosim'
HASH_CLASSES = 3
RUNS = {'quick': 3000, 'thorough': 40000}
RUN_TIMEOUT = 90
DETERMINISM_RUNS = 12
RULE = ("Each run = one simulated ET run (1-4 restarts, crash/restart "
        "overlap, 1-2 levels, 4 layouts x key variants, known+unknown "
        "groups, names/paths from a hostile token alphabet in ~45% of runs) "
        "whose writer events are interleaved by the seeded schedule with "
        "3-12 catalogue calls (iterations skip_last, read_iterations, "
        "get_content overwrite / cached, repeated calls), then a final "
        "iterations(skip_last=False), a fresh scan of a pristine copy, name "
        "parsing of every generated dataset key and file name, and "
        "parameters(). Non-trivial: >=2 catalogue calls returned a value "
        "that was checked AND (a restart appeared between two calls OR a "
        "hostile token is in the name/path). Distinct = distinct (#restarts,"
        " layout, levels, hostile?, op-kind sequence).")
PROBES = ['incremental_update', 'restart_appeared_between_calls',
          'hostile_name', 'hostile_path', 'content_from_json',
          'content_overwrite', 'unknown_group_scan', 'read_iterations_file',
          'single_iteration_level', 'repeated_call', 'fresh_scan_compared',
          'keys_parsed', 'files_parsed', 'parameters_parsed',
          'nothing_to_process', 'writer_running_during_call',
          'checkpoints_per_proc', 'enum_permuted', 'overall_checked',
          'group_vars_change', 'per_level_components',
          'process_numbers_with_gaps', 'writer_events_inside_call',
          'active_restart_symlink', 'param_object_from_parameters_reused',
          'io_fault_fired',
          'io_fault_raise_accepted', 'io_fault_swallowed',
          'call_after_io_fault_checked']
COMPONENTS = {
    'aurel.reading.iterations/read_iterations/collect_overall_iterations/'
    'get_content/parse_hdf5_key/parse_h5file/parameters': 'real',
    'h5py + tmpfs directory, iterations.txt, content.txt': 'real',
    'Einstein Toolkit / Carpet writer (second party)':
        'stub (etsim model, real HDF5 files), stepped by the scheduler',
    'glob/listdir order': 'simulated (seeded permutation)',
    'I/O errors (EIO when a data file is opened)': 'simulated: '
    'aurel.reading.h5py rebound to a counting proxy that fails the n-th open '
    'inside one catalogue call in 30% of the runs; that call may raise or '
    'skip the restart it could not read, every later call must be right',
    'set/dict order': 'real, 3 PYTHONHASHSEED classes'}
ASSUMPTIONS = [
    'the reader follows the documented protocol: skip_last=False and '
    'get_content(restart=k) only for restarts the writer has completed',
    'variable names come from aurel\'s own mapping tables plus two unknown '
    'groups; hostile tokens appear only in the simulation name and path',
    "'overall' is checked against an independent expectation only when all "
    'restarts have >=2 outputs with one common stride at that level; '
    'otherwise only for file/memory consistency']

TENSOR_GROUPS = [('gammadown3', ['gxx', 'gxy', 'gxz', 'gyy', 'gyz', 'gzz']),
                 ('Kdown3', ['kxx', 'kxy', 'kxz', 'kyy', 'kyz', 'kzz']),
                 ('betaup3', ['betax', 'betay', 'betaz']),
                 ('dtbetaup3', ['dtbetax', 'dtbetay', 'dtbetaz']),
                 ('velup3', ['vel[0]', 'vel[1]', 'vel[2]']),
                 ('Momentumup3', ['M1', 'M2', 'M3']),
                 ('Weyl_Psi', ['Psi4r', 'Psi4i'])]
SINGLES = {'trK': 'Ktrace', 'alp': 'alpha', 'dtalp': 'dtalpha',
           'rho': 'rho0', 'eps': 'eps', 'press': 'press',
           'w_lorentz': 'w_lorentz', 'vel[0]': 'velx', 'vel[1]': 'vely',
           'vel[2]': 'velz', 'H': 'Hamiltonian', 'M1': 'Momentumx',
           'M2': 'Momentumy', 'M3': 'Momentumz', 'Psi4r': 'Weyl_Psi4r',
           'Psi4i': 'Weyl_Psi4i'}


def expected_var_available(et_vars):
    left = list(et_vars)
    out = set()
    for name, comps in TENSOR_GROUPS:
        if all(c in left for c in comps):
            out.add(name)
            for c in comps:
                left.remove(c)
    for v in left:
        out.add(SINGLES.get(v, v))
    return out


def generate(rng, tier):
    hostile = rng.chance(0.45)
    cfg = etsim.gen_config(rng, hostile_names=hostile, max_restarts=4,
                           decomp_classes=('tensor', 'hier'), max_P=6,
                           mixed_grouping_p=0.0, group_vars_change_p=0.3,
                           label_gaps_p=0.25,
                           allow_stride_change=rng.chance(0.3))
    g = rng.child('ops')
    gf = rng.child('iofaults')
    gp = rng.child('preempt')
    io_faults = gf.chance(0.3)
    cfg['io_faults'] = io_faults
    enum = {'mode': g.pick(['sorted', 'reverse', 'shuffle']),
            'seed': g.randrange(1 << 30)}
    nres = len(cfg['restarts'])
    nev = len(etsim.ETSim(cfg, None).events)
    ops = []
    ncalls = g.randint(3, 12)
    budget = nev
    for k in range(ncalls):
        if budget > 0 and g.chance(0.6):
            n = g.randint(1, max(1, nev // 3))
            if g.chance(0.4):
                ops.append({'op': 'writer', 'until': 'restart_end'})
            else:
                ops.append({'op': 'writer', 'n': n})
                budget -= n
        r = g.random()
        if r < 0.45:
            ops.append({'op': 'iterations', 'skip_last': True})
        elif r < 0.6:
            ops.append({'op': 'read_iterations'})
        else:
            ops.append({'op': 'get_content', 'restart': g.randrange(nres),
                        'overwrite': g.chance(0.3)})
        if (ops[-1]['op'] == 'iterations' and budget > 0
                and gp.chance(0.35)):
            # the writer keeps running INSIDE this call: at the k-th point
            # where the reader enumerates a directory or opens a file, n
            # writer events happen
            ops[-1]['preempt'] = [{'at': gp.weighted(
                [(1, 3), (2, 3), (3, 2), (4, 2), (6, 1), (9, 1)]),
                'n': gp.randint(1, max(1, nev // 2))}
                for _ in range(gp.weighted([(1, 3), (2, 1)]))]
        if io_faults and ops[-1]['op'] != 'read_iterations' \
                and gf.chance(0.35):
            ops[-1]['fault'] = {'kind': 'open_r', 'err': 'EIO',
                                'at': gf.weighted([(1, 4), (2, 3), (3, 2),
                                                   (4, 1), (6, 1)]),
                                'when': gf.weighted([('before', 3),
                                                     ('after', 1)])}
    # simfactory's output-NNNN-active link to the running restart; the param
    # object obtained once from aurel.parameters() and used for every call
    cfg['active_link'] = gp.chance(0.4)
    return {'config': cfg, 'enum': enum, 'ops': ops,
            'param_from_parameters': gp.chance(0.4),
            'final': {'parse': True, 'parameters': True, 'fresh': True}}


def fixup(run):
    return run


def simplify(run):
    from . import C11
    for c in C11.simplify(run):
        if len(c['config']['restarts']) < len(run['config']['restarts']):
            n = len(c['config']['restarts'])
            c['ops'] = [o for o in c['ops']
                        if o.get('restart', 0) < n]
        yield c
    cfg = run['config']
    if cfg['simname'] not in etsim.PLAIN_NAMES:
        c = copy.deepcopy(run); c['config']['simname'] = 'sim'; yield c
    if cfg['simpath'] != 'S/':
        c = copy.deepcopy(run); c['config']['simpath'] = 'S/'; yield c
    if cfg.get('active_link'):
        c = copy.deepcopy(run); c['config']['active_link'] = False; yield c
    if run.get('param_from_parameters'):
        c = copy.deepcopy(run); c['param_from_parameters'] = False; yield c
    for i, o in enumerate(run['ops']):
        if o.get('fault'):
            c = copy.deepcopy(run); del c['ops'][i]['fault']; yield c
        if o.get('preempt'):
            c = copy.deepcopy(run); del c['ops'][i]['preempt']; yield c
            if len(o['preempt']) > 1:
                c = copy.deepcopy(run); c['ops'][i]['preempt'].pop(); yield c
    for k in ('parse', 'parameters', 'fresh'):
        if run['final'][k]:
            c = copy.deepcopy(run); c['final'][k] = False; yield c


# ---------------------------------------------------------------------------
def _norm(x):
    """Compare by value: numpy scalars/arrays -> python, tuples -> lists."""
    if isinstance(x, dict):
        return {str(k): _norm(v) for k, v in x.items()}
    if isinstance(x, (list, tuple, np.ndarray)):
        return [_norm(v) for v in list(x)]
    if isinstance(x, (np.integer,)):
        return int(x)
    if isinstance(x, (np.floating,)):
        return float(x)
    return x


def expected_restart_entry(sim, cfg, r):
    outs = sim.outputs[r]
    e = {}
    if any(outs.get(rl) for rl in outs):
        e['var available'] = expected_var_available(
            etsim.restart_vars(cfg, r))
        allits = sorted(it for its in outs.values() for it in its)
        e['its available'] = [allits[0], allits[-1]]
        for rl in sorted(outs):
            its = sorted(outs[rl])
            if len(its) > 1:
                e[f'rl = {rl}'] = [its[0], its[-1], its[1] - its[0]]
            elif its:
                e[f'rl = {rl}'] = [its[0]]
    chk = sorted(set(sim.checkpoints.get(r, [])))
    if 'its available' not in e and chk:
        e['its available'] = [chk[0], chk[-1]]
    e['checkpoints'] = chk
    return e


def compare_entry(got, exp, where, viol, opi):
    g = _norm(got)
    g.pop('it to do', None)
    if 'var available' in g:
        g['var available'] = sorted(g['var available'])
    e = dict(exp)
    if 'var available' in e:
        e['var available'] = sorted(e['var available'])
    if g != e:
        keys = sorted(k for k in set(g) | set(e) if g.get(k) != e.get(k))
        viol.append({
            'sig': 'catalogue:wrong_entry:' + '+'.join(
                k.split(' ')[0] for k in keys)[:40], 'op': opi,
            'msg': f'{where}: differs from what is on disk in '
                   f'{keys}: got { {k: g.get(k) for k in keys} } expected '
                   f'{ {k: e.get(k) for k in keys} }'})
        return False
    return True


def expected_overall(sim, restarts):
    """Independent expectation for 'overall' in the simple regular case."""
    out = {}
    lv = sorted({rl for r in restarts for rl in sim.outputs[r]})
    for rl in lv:
        segs = [sorted(sim.outputs[r].get(rl, [])) for r in restarts]
        segs = [s for s in segs if s]
        if not segs or any(len(s) < 2 for s in segs):
            return None
        d = {s[1] - s[0] for s in segs}
        if len(d) != 1:
            return None
        out[f'rl = {rl}'] = [[segs[0][0], segs[-1][-1], d.pop()]]
    return out


def execute(run):
    with seams_h5.h5_faults() as plan:
        return _execute(run, plan)


def _execute(run, plan):
    import h5py
    import aurel
    import aurel.reading as rd
    cfg = run['config']
    tr = Trace()
    viol, faults, probes = [], {}, {}

    def probe(k, n=1):
        probes[k] = probes.get(k, 0) + n

    def fault(k, n=1):
        faults[k] = faults.get(k, 0) + n
        probe(k, n)

    sim = etsim.ETSim(cfg, h5py)
    param = etsim.param_of(cfg)
    os.makedirs(sim.simdir, exist_ok=True)
    hostile = cfg['simname'] not in etsim.PLAIN_NAMES
    if hostile:
        fault('hostile_name')
    if cfg['simpath'] not in ('S/', 'sims/run_dir/'):
        fault('hostile_path')
    if any(rs.get('chk_per_proc') for rs in cfg['restarts']):
        probe('checkpoints_per_proc')
    if any(rs.get('mygroup_vars') for rs in cfg['restarts']):
        fault('group_vars_change')
    if any(len({len(b) for b in rs['boxes']}) > 1 for rs in cfg['restarts']):
        fault('per_level_components')
    if any(rs.get('labels') for rs in cfg['restarts']):
        fault('process_numbers_with_gaps')
    cat = iosim.Catalogued()
    checked = 0
    last_mem = None            # last dict returned by iterations()
    started_at_last_call = None
    content_seen = {}          # restart -> normalised result
    ops = list(run['ops']) + [{'op': 'writer', 'finish': True},
                              {'op': 'iterations', 'skip_last': False}]
    nontrivial_flag = False
    after_fault = False
    param_real = [False]
    if cfg.get('active_link'):
        fault('active_restart_symlink')

    def check_catalogue(res, where, opi, expect_restarts, maybe=()):
        nonlocal checked
        got_rs = sorted(k for k in res if k != 'overall')
        if maybe and set(expect_restarts) <= set(got_rs) \
                <= set(expect_restarts) | set(maybe):
            # after a call that hit an I/O error the file may or may not
            # hold the restarts that call was working on
            expect_restarts = got_rs
        if got_rs != expect_restarts:
            viol.append({'sig': 'catalogue:restart_set', 'op': opi,
                         'msg': f'{where}: covers restarts {got_rs}, '
                                f'expected {expect_restarts}'})
            return
        for r in expect_restarts:
            if not compare_entry(res[r], expected_restart_entry(sim, cfg, r),
                                 f'{where} restart {r}', viol, opi):
                return
        checked += 1
        if 'overall' in res:
            eo = expected_overall(sim, expect_restarts)
            if eo is not None:
                probe('overall_checked')
                if _norm(res['overall']) != eo:
                    viol.append({
                        'sig': 'catalogue:overall', 'op': opi,
                        'msg': f"{where}: overall={_norm(res['overall'])} "
                               f'expected {eo}'})

    with seams_fs.enumeration_order(run['enum']['mode'],
                                    run['enum']['seed']) as order:
        for opi, op in enumerate(ops):
            if viol:
                break
            kind = op['op']
            if kind == 'writer':
                if op.get('finish'):
                    fired = sim.run_all()
                elif op.get('until'):
                    cur = (sim.restarts_started[-1]
                           if sim.restarts_started else 0)
                    if cur in sim.restarts_finished:
                        cur += 1
                    fired = sim.run_until_restart_end(cur)
                else:
                    fired = sim.step(op['n'])
                tr.event('writer', n=len(fired))
                continue
            started = list(sim.restarts_started)
            running = not sim.done()
            if running:
                probe('writer_running_during_call')
            if (run.get('param_from_parameters') and not param_real[0]
                    and 0 in sim.par_written):
                # the documented way to get `param`; the same object is then
                # passed to every later call
                old_loc = os.environ.get('SIMLOC')
                os.environ['SIMLOC'] = cfg['simpath']
                try:
                    param = rd.parameters(cfg['simname'])
                    param_real[0] = True
                    fault('param_object_from_parameters_reused')
                except Exception:  # noqa: BLE001 - judged by final check
                    pass
                finally:
                    if old_loc is None:
                        os.environ.pop('SIMLOC', None)
                    else:
                        os.environ['SIMLOC'] = old_loc
            if kind == 'iterations':
                skip = op['skip_last']
                before_seen = set(cat.seen)
                vis = cat.peek(started, skip)
                plan.arm(op.get('fault'))
                pre = sorted(op.get('preempt') or [], key=lambda x: x['at']) \
                    if skip else []
                io_points = [0]
                ran_inside = [0]

                def hook(tag, pre=pre, io_points=io_points,
                         ran_inside=ran_inside):
                    io_points[0] += 1
                    for pe in pre:
                        if pe['at'] == io_points[0]:
                            ev = sim.step(pe['n'])
                            ran_inside[0] += len(ev)
                            tr.event('writer_inside_call', n=len(ev),
                                     at=io_points[0])
                seams_fs.PREEMPT[0] = hook if pre else None
                try:
                    try:
                        res = aurel.iterations(param, skip_last=skip,
                                               verbose=False)
                    finally:
                        seams_fs.PREEMPT[0] = None
                    fired = plan.disarm()
                except seams_h5.InjectedIOError:
                    plan.disarm()
                    fault('io_fault_fired')
                    probe('io_fault_raise_accepted')
                    after_fault = True
                    cat.call(list(sim.restarts_started), skip, failed=True)
                    tr.event('iterations', outcome='injected')
                    continue
                except ImportError as e:
                    plan.disarm()
                    vis = cat.call(started, skip)
                    tr.event('iterations', outcome='ImportError')
                    if vis:
                        viol.append({
                            'sig': 'iterations:raised:ImportError', 'op': opi,
                            'msg': f'op#{opi} iterations(skip_last={skip}) '
                                   f'said nothing to process although '
                                   f'restarts {vis} are complete: {e}'})
                    else:
                        probe('nothing_to_process')
                    continue
                except Exception as e:  # noqa: BLE001
                    if plan.disarm() is not None:
                        fault('io_fault_fired')
                        probe('io_fault_raise_accepted')
                        after_fault = True
                        cat.call(list(sim.restarts_started), skip, failed=True)
                        continue
                    viol.append({
                        'sig': f'iterations:raised:{type(e).__name__}:'
                               f'{iosim.aurel_site(e)}', 'op': opi,
                        'msg': f'op#{opi} iterations(skip_last={skip}) on '
                               f'simname={cfg["simname"]!r} simpath='
                               f'{cfg["simpath"]!r} raised '
                               f'{type(e).__name__}: {e}'})
                    continue
                tr.event('iterations', result=digest(_norm(res)))
                if fired is not None:
                    # carried on after the error: this call may lack the
                    # restart(s) it could not read - and only those
                    fault('io_fault_fired')
                    probe('io_fault_swallowed')
                    after_fault = True
                    got_rs = sorted(k for k in res if k != 'overall')
                    if ran_inside[0]:
                        vis = cat.peek(list(sim.restarts_started), skip)
                        started = list(sim.restarts_started)
                    if not set(got_rs) <= set(vis):
                        viol.append({'sig': 'catalogue:restart_set', 'op': opi,
                                     'msg': f'op#{opi} iterations() after an '
                                            f'I/O error covers {got_rs}, '
                                            f'complete restarts are {vis}'})
                    for r in got_rs:
                        if r in vis:
                            compare_entry(res[r], expected_restart_entry(
                                sim, cfg, r), f'op#{opi} iterations() (I/O '
                                f'error in this call) restart {r}', viol, opi)
                    cat.call(list(sim.restarts_started), skip, failed=True)
                    cat.seen |= set(got_rs) & set(vis)
                    cat.maybe -= cat.seen
                    started_at_last_call = len(started)
                    continue
                if ran_inside[0]:
                    # the writer ran inside the call: the restarts covered
                    # lie between what was complete when the call began and
                    # what is complete now; each covered restart was complete
                    # when it was scanned (a later one existed), so its entry
                    # must be the final truth
                    fault('writer_events_inside_call', ran_inside[0])
                    lower = set(vis)
                    upper = set(cat.peek(list(sim.restarts_started), skip))
                    got_rs = {k for k in res if k != 'overall'}
                    if not (lower <= got_rs <= upper):
                        viol.append({
                            'sig': 'catalogue:restart_set:writer_inside_call',
                            'op': opi,
                            'msg': f'op#{opi} iterations(skip_last=True) with '
                                   f'the writer running inside the call '
                                   f'covers {sorted(got_rs)}; complete before '
                                   f'the call: {sorted(lower)}, complete '
                                   f'after it: {sorted(upper)}'})
                        continue
                    if got_rs - lower:
                        probe('restart_completed_during_call_was_covered')
                    cat.seen |= got_rs
                    vis = sorted(cat.seen)
                    started = list(sim.restarts_started)
                else:
                    vis = cat.call(started, skip)
                if after_fault:
                    probe('call_after_io_fault_checked')
                if before_seen and set(vis) - before_seen:
                    fault('incremental_update')
                    nontrivial_flag = True
                if (started_at_last_call is not None
                        and len(started) > started_at_last_call):
                    fault('restart_appeared_between_calls')
                    nontrivial_flag = True
                if before_seen == set(vis) and before_seen:
                    probe('repeated_call')
                started_at_last_call = len(started)
                check_catalogue(res, f'op#{opi} iterations(skip_last={skip})',
                                opi, vis)
                if any(len(v) == 1 for r in vis for v in
                       sim.outputs[r].values()):
                    probe('single_iteration_level')
                last_mem = res
                # file <-> memory round trip
                if not viol:
                    try:
                        back = rd.read_iterations(param, skip_last=skip)
                    except Exception as e:  # noqa: BLE001
                        viol.append({
                            'sig': f'read_iterations:raised:'
                                   f'{type(e).__name__}', 'op': opi,
                            'msg': f'op#{opi} read_iterations() of the file '
                                   f'just written raised {type(e).__name__}'
                                   f': {e} (simname={cfg["simname"]!r}, '
                                   f'simpath={cfg["simpath"]!r})'})
                        continue
                    probe('read_iterations_file')
                    mem = _norm({k: v for k, v in res.items()
                                 if k != 'overall'})
                    for r in mem:
                        mem[r].pop('it to do', None)
                    if _norm(back) != mem:
                        bad = sorted(k for k in set(mem) | set(_norm(back))
                                     if mem.get(k) != _norm(back).get(k))
                        viol.append({
                            'sig': 'catalogue:file_memory_mismatch',
                            'op': opi,
                            'msg': f'op#{opi} iterations.txt parses back '
                                   f'differently from the returned dict for '
                                   f'restart(s) {bad}: file '
                                   f'{ {k: _norm(back).get(k) for k in bad} }'
                                   f' memory { {k: mem.get(k) for k in bad} }'
                        })
            elif kind == 'read_iterations':
                existed = os.path.isfile(sim.simdir + '/iterations.txt')
                vis = cat.call(started, True) if not existed else sorted(
                    cat.seen)
                maybe = sorted(cat.maybe) if existed else []
                try:
                    back = rd.read_iterations(param)
                except ImportError:
                    if vis:
                        viol.append({'sig': 'read_iterations:raised:'
                                            'ImportError', 'op': opi,
                                     'msg': f'op#{opi} read_iterations() '
                                            'nothing to process although '
                                            f'{vis} complete'})
                    else:
                        probe('nothing_to_process')
                    continue
                except Exception as e:  # noqa: BLE001
                    viol.append({
                        'sig': f'read_iterations:raised:{type(e).__name__}',
                        'op': opi,
                        'msg': f'op#{opi} read_iterations() raised '
                               f'{type(e).__name__}: {e} (simname='
                               f'{cfg["simname"]!r}, simpath='
                               f'{cfg["simpath"]!r})'})
                    continue
                tr.event('read_iterations', result=digest(_norm(back)))
                probe('read_iterations_file')
                check_catalogue(back, f'op#{opi} read_iterations()', opi, vis,
                                maybe)
            elif kind == 'get_content':
                r = op['restart']
                if r not in sim.restarts_finished:
                    continue          # protocol: completed restarts only
                plan.arm(op.get('fault'))
                try:
                    res = aurel.get_content(param, restart=r,
                                            overwrite=op['overwrite'],
                                            verbose=False)
                    if plan.disarm() is not None:
                        fault('io_fault_fired')
                        probe('io_fault_swallowed')
                        after_fault = True
                    elif after_fault:
                        probe('call_after_io_fault_checked')
                except Exception as e:  # noqa: BLE001
                    if plan.disarm() is not None:
                        fault('io_fault_fired')
                        probe('io_fault_raise_accepted')
                        after_fault = True
                        tr.event('get_content', outcome='injected')
                        continue
                    viol.append({
                        'sig': f'get_content:raised:{type(e).__name__}',
                        'op': opi,
                        'msg': f'op#{opi} get_content(restart={r}) raised '
                               f'{type(e).__name__}: {e}'})
                    continue
                tr.event('get_content', result=digest(_norm(
                    {','.join(k): sorted(v) for k, v in res.items()})))
                rs = cfg['restarts'][r]
                exp = {}
                for base, thorn, vs in sim.bases(rs):
                    files = sorted(fn for fn in sim.files[r] if
                                   os.path.basename(fn).split('.')[0] == base)
                    if files:      # an empty (crashed-at-start) restart
                        exp[tuple(sorted(vs))] = files
                got = {tuple(k): sorted(v) for k, v in res.items()}
                if rs['grouped'] and any(
                        g in ('mythorn-mygroup', 'xthorn-single')
                        for g in cfg['groups']):
                    probe('unknown_group_scan')
                if got != exp:
                    bad = sorted(k for k in set(got) | set(exp)
                                 if got.get(k) != exp.get(k))
                    viol.append({
                        'sig': 'content:wrong_mapping', 'op': opi,
                        'msg': f'op#{opi} get_content(restart={r}, overwrite'
                               f'={op["overwrite"]}) differs for {bad[:3]}: '
                               f'got { {k: got.get(k) for k in bad[:3]} } '
                               f'expected { {k: exp.get(k) for k in bad[:3]} }'
                    })
                    continue
                checked += 1
                if op['overwrite']:
                    probe('content_overwrite')
                elif r in content_seen:
                    probe('content_from_json')
                    probe('repeated_call')
                content_seen[r] = got
        # ------------------------------------------------ final checks ----
        if not viol and run['final']['fresh'] and last_mem is not None:
            fresh_root = 'FRESH/'
            dst = fresh_root + sim.simdir
            shutil.copytree(sim.simdir, dst, ignore=shutil.ignore_patterns(
                'iterations.txt', 'content.txt', 'all_iterations'))
            p2 = dict(param)
            p2['simpath'] = fresh_root + cfg['simpath']
            try:
                fresh = aurel.iterations(p2, skip_last=False, verbose=False)
                probe('fresh_scan_compared')
                a = _norm(fresh)
                b = _norm(last_mem)
                for d in (a, b):
                    for r in d:
                        if isinstance(d[r], dict):
                            d[r].pop('it to do', None)
                            if 'var available' in d[r]:
                                d[r]['var available'] = sorted(
                                    d[r]['var available'])
                if a != b:
                    bad = sorted(k for k in set(a) | set(b)
                                 if a.get(k) != b.get(k))
                    viol.append({
                        'sig': 'catalogue:incremental_vs_fresh',
                        'op': len(ops),
                        'msg': f'incrementally built catalogue differs from '
                               f'one fresh scan in {bad}: incremental '
                               f'{ {k: b.get(k) for k in bad} } fresh '
                               f'{ {k: a.get(k) for k in bad} }'})
            except Exception as e:  # noqa: BLE001
                viol.append({'sig': f'fresh_scan:raised:{type(e).__name__}',
                             'op': len(ops),
                             'msg': f'fresh iterations() raised {e}'})
        if order.permuted:
            fault('enum_permuted', order.permuted)

    if not viol and run['final']['parse']:
        _check_parsing(sim, cfg, rd, viol, probe, len(ops))
    if not viol and run['final']['parameters']:
        _check_parameters(sim, cfg, rd, viol, probe, len(ops))
    nres = len(cfg['restarts'])
    lay = sorted({(rs['per_proc'], rs['grouped'], rs['xyz'])
                  for rs in cfg['restarts']})
    state_sig = digest([nres, lay, len(cfg['levels']), hostile,
                        [o['op'] for o in run['ops']]])
    return {'violations': viol[:4], 'digest': tr.hexdigest(),
            'n_ops': len(ops), 'faults': faults, 'probes': probes,
            'state_sig': state_sig,
            'nontrivial': checked >= 2 and (nontrivial_flag or hostile),
            'logical': {'ops': len(ops), 'writer_events': sim.pos,
                        'catalogue_results_checked': checked}}


def _check_parsing(sim, cfg, rd, viol, probe, opi):
    hostile_dir = sim.rdir(0)
    for r, rs in enumerate(cfg['restarts']):
        for base, thorn, vs in sim.bases(rs):
            nch = len(rs['boxes'][0])
            for c in range(nch if rs['per_proc'] else 1):
                fn = sim.file_name(rs, base, c)
                for path in (fn, hostile_dir + fn):
                    info = rd.parse_h5file(path)
                    probe('files_parsed')
                    exp = {'group_file': rs['grouped'],
                           'chunk_number': (sim.label(rs, c)
                                            if rs['per_proc'] else None),
                           'variable_or_group': (base.split('-', 1)[1]
                                                 if rs['grouped'] else base),
                           'thorn': (base.split('-', 1)[0]
                                     if rs['grouped'] else None)}
                    if info is None or any(info.get(k) != v
                                           for k, v in exp.items()):
                        viol.append({
                            'sig': 'parse_h5file:wrong', 'op': opi,
                            'msg': f'parse_h5file({path!r}) = {info}, '
                                   f'expected fields {exp}'})
                        return
            for v in vs:
                for it in (0, 7, 1280):
                    for rl in range(len(cfg['levels'])):
                        for c in (None, 0, 12):
                            key = (f'{thorn}::{v} it={it} tl=0'
                                   + (' m=0' if rs['with_m'] else '')
                                   + f' rl={rl}'
                                   + (f' c={c}' if c is not None else ''))
                            got = rd.parse_hdf5_key(key)
                            probe('keys_parsed')
                            exp = {'thorn': thorn, 'variable': v, 'it': it,
                                   'tl': 0, 'm': 0 if rs['with_m'] else None,
                                   'rl': rl, 'c': c,
                                   'combined variable name': f'{thorn}::{v}'}
                            if got != exp:
                                viol.append({
                                    'sig': 'parse_hdf5_key:wrong', 'op': opi,
                                    'msg': f'parse_hdf5_key({key!r}) = {got}'
                                           f', expected {exp}'})
                                return
        for it in sim.checkpoints.get(r, [])[:2]:
            for nm, c in ((f'checkpoint.chkpt.it_{it}.h5', None),
                          (f'checkpoint.chkpt.it_{it}.file_3.h5', 3)):
                for path in (nm, hostile_dir + nm):
                    info = rd.parse_h5file(path)
                    if info != {'iteration': it, 'chunk_number': c}:
                        viol.append({
                            'sig': 'parse_h5file:checkpoint_wrong',
                            'op': opi,
                            'msg': f'parse_h5file({path!r}) = {info}'})
                        return


def _check_parameters(sim, cfg, rd, viol, probe, opi):
    if 0 not in sim.par_written:
        return
    old = os.environ.get('SIMLOC')
    os.environ['SIMLOC'] = cfg['simpath']
    try:
        p = rd.parameters(cfg['simname'])
    except Exception as e:  # noqa: BLE001
        viol.append({'sig': f'parameters:raised:{type(e).__name__}',
                     'op': opi,
                     'msg': f'parameters({cfg["simname"]!r}) with SIMLOC='
                            f'{cfg["simpath"]!r} raised {type(e).__name__}: '
                            f'{e}'})
        return
    finally:
        if old is None:
            os.environ.pop('SIMLOC', None)
        else:
            os.environ['SIMLOC'] = old
    probe('parameters_parsed')
    N = cfg['levels'][0]['N']
    g = cfg['ghost']
    exp = {'simname': cfg['simname'], 'simulation': 'ET',
           'simpath': cfg['simpath'], 'xmin': 0.0, 'xmax': float(N[0] + 1),
           'dx': 1.0, 'dz': 1.0, 'zmax': float(N[2] + 1),
           'boundary_size_x_lower': g[0], 'ghost_size': g[0],
           'max_refinement_levels': len(cfg['levels']),
           'IOHDF5::one_file_per_group': 'no', 'out_dir': cfg['simname'],
           'cctk_initial_time': 1, 'domainsize': 'minmax',
           'Nx': N[0] + 2, 'Lz': float(N[2] + 1)}
    bad = {k: (p.get(k), v) for k, v in exp.items()
           if p.get(k) != v or type(p.get(k)) is not type(v)}
    thorns = {'Time', 'CoordBase', 'Cactus', 'driver', 'Carpet', 'IOHDF5',
              'IO'}
    if not thorns <= set(p.get('list_of_thorns', [])):
        bad['list_of_thorns'] = (sorted(p.get('list_of_thorns', [])),
                                 sorted(thorns))
    if bad:
        viol.append({'sig': 'parameters:wrong:' + '+'.join(sorted(bad))[:40],
                     'op': opi,
                     'msg': f'parameters({cfg["simname"]!r}): (got, expected)'
                            f' = {bad}'})
