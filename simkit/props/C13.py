"""C13 - save_data / read_data round trip in Aurel format (engine: iosim).

System: a scratch directory + the real aurel.save_data / aurel.read_data.
Reference model: dict  it -> {(var, rl): array}  ("last saved wins").
Every saved array is unique and carries its origin, so a wrong array names
where it came from.  DESIGN.md section 4 / C13.
"""
import copy
import hashlib

import numpy as np

from .. import seams_h5
from ..digest import Trace, digest

PROP = 'C13'
ENGINE = 'iosim'
HASH_CLASSES = 3
RUNS = {'quick': 8000, 'thorough': 150000}
RUN_TIMEOUT = 30
DETERMINISM_RUNS = 24
RULE = ("Each run = seeded history of 2-12 save_data/read_data calls on one "
        "scratch directory (data dicts with iterations in any order, scalar/"
        "tensor/0-d columns, whole-variable None, ragged None; it/vars/rl "
        "subsets; overwrites; datapath with or without trailing slash). "
        "A run is non-trivial if at least one READ compared >=1 stored array "
        "AND at least one fault kind (subset save, unsorted it, overwrite, "
        "ragged None, no trailing slash, vars subset) fired; distinct = "
        "distinct (op-kind sequence, fired-fault multiset, #stored entries).")
PROBES = ['save_subset_of_its', 'save_unsorted_it', 'overwrite',
          'ragged_none_selected', 'whole_none', 'no_trailing_slash',
          'vars_subset', 'read_missing_it', 'read_all_vars',
          'read_compared_array', 'read_none_expected', 'data_without_it',
          'read_dup_or_unsorted_it', 'io_fault_fired_in_save',
          'io_fault_fired_in_read', 'read_after_failed_save',
          'uncertain_entry_compared', 'scribbled_on_returned_arrays',
          'scribbled_on_saved_arrays', 'save_unknown_var_raises',
          'kept_returned_arrays', 'second_store_directory']
COMPONENTS = {'aurel.reading.save_data': 'real', 'aurel.reading.read_data':
              'real', 'aurel.reading.read_aurel_data': 'real', 'h5py + '
              'filesystem (tmpfs scratch dir)': 'real',
              'reference model (dict)': 'harness',
              'I/O errors (ENOSPC at create_dataset, EIO/EACCES at open, EIO '
              'at delete)': 'simulated: the name h5py inside aurel.reading is '
              'rebound to a counting proxy that fails the n-th call of one '
              'kind, before or after the real operation'}
ASSUMPTIONS = [
    "save_data is only called with it-values that occur in data['it'] and "
    "vars that are keys of data (anything else is outside the statement)",
    "variable names are plain identifiers (no ' rl' substring)",
    "a ragged None entry at a selected iteration must be skipped (statement: "
    "'None entries are skipped as documented')",
    "after a save_data call that failed (injected I/O error, or a variable "
    "name that is not in the dictionary) every entry that call targeted may "
    "hold its old value, its new value, or be absent - never anything else; "
    "entries the failed call did not target are unaffected",
    "the caller may modify arrays it got from read_data or passed to "
    "save_data afterwards; what is stored does not change"]

ITS = [0, 1, 2, 3, 5, 8, 13]
VARNAMES = ['alpha', 'gxx', 'rho0', 'Kdown3', 'betaup3', 'custom_q']
SHAPES = {'alpha': (2, 3, 4), 'gxx': (2, 1, 4), 'rho0': (2, 3, 4),
          'Kdown3': (3, 3, 2, 2, 2), 'betaup3': (3, 2, 3, 1),
          'custom_q': ()}
BIG_SHAPE = (70, 44, 50)        # > 1 MiB as float64, no axis a power of two
DTYPES = ['float64', 'float64', 'float32', 'int64', 'complex128']


# ---------------------------------------------------------------------------
def generate(rng, tier):
    cfg = {'slash': rng.chance(0.7),
           'dir': rng.pick(['store', 'a/b/store', 'it_dir'])}
    g = rng.child('ops')
    gf = rng.child('iofaults')
    # fault-free and fault-injecting configurations are separate runs
    cfg['io_faults'] = gf.chance(0.3)
    cfg['scribble'] = gf.chance(0.4)
    nops = g.randint(2, 12) if g.chance(0.7) else g.randint(2, 5)
    ops = []
    saved_its = []
    for k in range(nops):
        if k == 0 or (g.chance(0.55) and k < nops - 1):
            n = g.randint(1, 4)
            its = g.sample(ITS, n)
            if g.chance(0.5):
                its = sorted(its)
            names = g.subset(VARNAMES, 0.3, 0.9, nonempty=True)
            cols = {}
            for v in names:
                r = g.random()
                if r < 0.1:
                    cols[v] = {'kind': 'none'}
                elif r < 0.25 and n > 1:
                    cols[v] = {'kind': 'ragged', 'none_at': sorted(
                        g.sample(range(n), g.randint(1, n - 1))),
                        'dtype': g.pick(DTYPES)}
                else:
                    cols[v] = {'kind': 'full', 'dtype': g.pick(DTYPES)}
                    if v in ('alpha', 'rho0') and g.chance(0.02):
                        cols[v]['big'] = True
            with_it = g.chance(0.85)
            with_t = g.chance(0.7)
            if with_it:
                sel = g.subset(its, 0.3, 1.0, nonempty=True)
                if g.chance(0.3):
                    sel = list(its)
                g.shuffle(sel)
                if g.chance(0.15):
                    sel = sel + [sel[0]]
            else:
                its = sorted(its)
                sel = list(its)
            vsel = [] if g.chance(0.5) else g.subset(names, 0.3, 1.0,
                                                     nonempty=True)
            ops.append({'op': 'save', 'its': its, 'cols': cols,
                        'with_it': with_it, 'with_t': with_t,
                        't_none': with_t and g.chance(0.1),
                        'it': sel, 'vars': vsel,
                        'rl': g.weighted([(0, 5), (1, 3), (2, 1), (10, 1)]),
                        'default_it': False, 'it_array': g.chance(0.4),
                        'kw_it_array': g.chance(0.3)})
            saved_its += its
            if cfg['io_faults'] and k > 0 and gf.chance(0.35):
                ops[-1]['fault'] = seams_h5.gen_fault(
                    gf, ('create', 'create', 'open_w', 'delete'))
            elif cfg['io_faults'] and k > 0 and gf.chance(0.12):
                # a variable name that is not in the dictionary: the call
                # raises midway, the caller carries on
                ops[-1]['bad_var'] = gf.pick(['first', 'last'])
            if cfg['scribble'] and gf.chance(0.5):
                ops[-1]['scribble'] = True
        else:
            pool = sorted(set(saved_its)) or [0]
            it = g.subset(pool, 0.3, 1.0, nonempty=True)
            if g.chance(0.4):
                it.append(g.pick(ITS))
            if g.chance(0.3):
                g.shuffle(it)
            if g.chance(0.15):
                it = it + [it[0]]
            vs = [] if g.chance(0.4) else g.subset(
                VARNAMES + ['never_saved', 't'], 0.2, 0.8, nonempty=True)
            ops.append({'op': 'read', 'it': it, 'vars': vs,
                        'rl': g.weighted([(0, 5), (1, 3), (2, 1), (10, 1)]),
                        'kw_it_array': g.chance(0.3)})
            if cfg['io_faults'] and gf.chance(0.15):
                ops[-1]['fault'] = seams_h5.gen_fault(gf, ('open_r',))
            if cfg['scribble'] and gf.chance(0.6):
                ops[-1]['scribble'] = True
    # a second store directory used in the same session: some of the ops go
    # there (own reference model)
    ga = rng.child('altstore')
    if ga.chance(0.15):
        for o in ops:
            if ga.chance(0.4):
                o['alt'] = True
    return {'config': cfg, 'ops': ops}


def fixup(run):
    if not run['ops']:
        return None
    return run


def simplify(run):
    """Candidates that are simpler than `run` (one change each)."""
    if not run['config']['slash']:
        c = copy.deepcopy(run); c['config']['slash'] = True; yield c
    if run['config']['dir'] != 'store':
        c = copy.deepcopy(run); c['config']['dir'] = 'store'; yield c
    for i, op in enumerate(run['ops']):
        for fk in ('fault', 'bad_var', 'scribble', 'alt'):
            if op.get(fk):
                c = copy.deepcopy(run); del c['ops'][i][fk]; yield c
        if op.get('fault') and op['fault']['at'] > 1:
            c = copy.deepcopy(run); c['ops'][i]['fault']['at'] -= 1; yield c
        if op['op'] == 'save':
            for v in sorted(op['cols']):
                if len(op['cols']) > 1:
                    c = copy.deepcopy(run)
                    del c['ops'][i]['cols'][v]
                    c['ops'][i]['vars'] = [x for x in c['ops'][i]['vars']
                                           if x != v]
                    yield c
                if op['cols'][v].get('dtype', 'float64') != 'float64':
                    c = copy.deepcopy(run)
                    c['ops'][i]['cols'][v]['dtype'] = 'float64'
                    yield c
            if op['with_t']:
                c = copy.deepcopy(run); c['ops'][i]['with_t'] = False
                c['ops'][i]['t_none'] = False; yield c
            if op['rl'] != 0:
                c = copy.deepcopy(run); c['ops'][i]['rl'] = 0; yield c
            if len(op['it']) > 1:
                for j in range(len(op['it'])):
                    c = copy.deepcopy(run); del c['ops'][i]['it'][j]; yield c
            if len(op['its']) > 1:
                for j, iv in enumerate(op['its']):
                    if iv not in op['it']:
                        c = copy.deepcopy(run)
                        o = c['ops'][i]
                        del o['its'][j]
                        for col in o['cols'].values():
                            if col['kind'] == 'ragged':
                                col['none_at'] = [
                                    (a if a < j else a - 1)
                                    for a in col['none_at'] if a != j]
                        yield c
        else:
            if len(op['it']) > 1:
                for j in range(len(op['it'])):
                    c = copy.deepcopy(run); del c['ops'][i]['it'][j]; yield c
            if len(op['vars']) > 1:
                for j in range(len(op['vars'])):
                    c = copy.deepcopy(run); del c['ops'][i]['vars'][j]; yield c
            if op['rl'] != 0:
                c = copy.deepcopy(run); c['ops'][i]['rl'] = 0; yield c


# ---------------------------------------------------------------------------
def _make_array(opi, v, pos, itv, dtype, big=False):
    """Unique, attributable array for (save op, variable, position)."""
    shape = BIG_SHAPE if big else SHAPES.get(v, (2, 2, 2))
    seed = int.from_bytes(hashlib.sha256(
        f'{opi}|{v}|{pos}'.encode()).digest()[:4], 'big')
    base = 1000.0 * (opi + 1) + 10.0 * pos + (seed % 7) / 8.0
    n = int(np.prod(shape)) if shape else 1
    a = base + np.arange(n, dtype='float64').reshape(shape) / 64.0
    if dtype == 'complex128':
        a = a + 1j * (a + 0.5)
    elif dtype == 'int64':
        a = (a * 64).astype('int64')
    elif dtype == 'float32':
        a = a.astype('float32')
    return np.array(a, dtype=dtype)


def _same(g, exp):
    g = np.array(g)
    return (g.shape == exp.shape and g.dtype == exp.dtype
            and digest(g) == digest(exp))


def execute(run):
    import aurel
    with seams_h5.h5_faults() as plan:
        return _execute(run, aurel, plan)


def _execute(run, aurel, plan):
    cfg = run['config']
    tr = Trace()
    viol = []
    faults, probes = {}, {}

    def fault(k):
        faults[k] = faults.get(k, 0) + 1
        probes[k] = probes.get(k, 0) + 1

    def probe(k):
        probes[k] = probes.get(k, 0) + 1

    datapath = cfg['dir'] + ('/' if cfg['slash'] else '')
    stores = {False: ({'datapath': datapath}, {}),
              True: ({'datapath': 'second_' + datapath}, {})}
    # it -> {(var, rl): [candidates]}; a candidate is an array or None
    # (= absent).  One candidate = the entry is known exactly; several = a
    # failed save left it "old, new or absent" (never anything else).
    param, model = stores[False]
    origin = {}           # digest -> description
    compared = 0
    stop = False
    failed_save_seen = False
    handed = []           # (description, array, digest) returned by reads

    def handed_changed(opi, what):
        for desc, arr, dg in handed:
            if digest(arr) != dg:
                viol.append({'sig': 'mutation:changed:read_data_result',
                             'op': opi,
                             'msg': f'op#{opi} {what} changed, in place, the '
                                    f'array that {desc} had returned'})
                return True
        return False
    for opi, op in enumerate(run['ops']):
        if stop:
            break
        param, model = stores[bool(op.get('alt'))]
        if op.get('alt'):
            probe('second_store_directory')
        if op['op'] == 'save':
            its = list(op['its'])
            data = {}
            if op['with_it']:
                data['it'] = (np.array(its) if op.get('it_array')
                              else list(its))
            if op['with_t']:
                data['t'] = None if op['t_none'] else [
                    0.25 * iv + 100.0 * (opi + 1) for iv in its]
            for v in sorted(op['cols']):
                col = op['cols'][v]
                if col['kind'] == 'none':
                    data[v] = None
                    continue
                arrs = []
                for pos, iv in enumerate(its):
                    if col['kind'] == 'ragged' and pos in col['none_at']:
                        arrs.append(None)
                    else:
                        a = _make_array(opi, v, pos, iv, col['dtype'],
                                        col.get('big', False))
                        origin[digest(a)] = (f'op#{opi} save data[{v!r}]'
                                             f'[{pos}] (belongs to it={iv})')
                        arrs.append(a)
                data[v] = arrs
            kwargs = {'it': list(op['it']), 'rl': op['rl']}
            if op.get('kw_it_array'):
                kwargs['it'] = np.array(op['it'])      # a legal way to pass it
            if op['vars']:
                kwargs['vars'] = list(op['vars'])
            bad_var = op.get('bad_var')
            if bad_var:
                base = list(op['vars']) if op['vars'] else sorted(data.keys())
                kwargs['vars'] = (['no_such_var'] + base if bad_var == 'first'
                                  else base + ['no_such_var'])
            before = (digest(data), digest(kwargs), digest(param))
            # ---- model -----------------------------------------------------
            vars_eff = list(op['vars']) if op['vars'] else sorted(data.keys())
            for extra in ('it', 't'):
                if extra not in vars_eff and extra in data:
                    vars_eff.append(extra)
            sel = sorted(set(op['it']))
            if len(sel) < len(its):
                fault('save_subset_of_its')
            if its != sorted(its):
                fault('save_unsorted_it')
            if not op['with_it']:
                probe('data_without_it')
            if op['vars'] and set(op['vars']) != set(op['cols']):
                fault('vars_subset')
            if not cfg['slash']:
                fault('no_trailing_slash')
            expect_skip_ragged = False
            targeted = []          # (iv, key, new array)
            for iv in sel:
                idx = its.index(iv)
                for key in vars_eff:
                    if data[key] is None:
                        probe('whole_none')
                        continue
                    ent = data[key][idx]
                    if ent is None:
                        expect_skip_ragged = True
                        fault('ragged_none_selected')
                        continue
                    targeted.append((iv, key, np.array(ent)))
            # ---- system ----------------------------------------------------
            plan.arm(op.get('fault'))
            try:
                aurel.save_data(param, data, **kwargs)
                outcome = 'ok'
            except Exception as e:   # noqa: BLE001 - classified below
                outcome = f'{type(e).__name__}'
                exc = e
            fired = plan.disarm()
            failed = False
            if outcome != 'ok':
                if fired is not None:
                    fault('io_fault_fired_in_save')
                    failed = True
                elif bad_var and outcome == 'KeyError':
                    fault('save_unknown_var_raises')
                    failed = True
                else:
                    why = 'ragged_none' if expect_skip_ragged else 'plain'
                    viol.append({'sig': f'save:raised:{outcome}:{why}',
                                 'op': opi,
                                 'msg': f'op#{opi} save_data(it={op["it"]}, '
                                        f'vars={op["vars"]}, rl={op["rl"]}) '
                                        f'raised {outcome}: {exc}'})
                    stop = True
            elif fired is not None:
                # the error was reported after the operation took effect and
                # save_data did not pass it on: still only old/new/absent
                fault('io_fault_fired_in_save')
                failed = True
            for iv, key, new in targeted:
                tgt = model.setdefault(iv, {})
                old = tgt.get((key, op['rl']), [None])
                if failed:
                    tgt[(key, op['rl'])] = old + [new, None]
                else:
                    if any(c is not None for c in old):
                        fault('overwrite')
                    tgt[(key, op['rl'])] = [new]
            failed_save_seen = failed_save_seen or failed
            after = (digest(data), digest(kwargs), digest(param))
            for nm, b, a in zip(('data', 'kwargs(it/vars)', 'param'),
                                before, after):
                if a != b:
                    viol.append({'sig': f'args_mutated:save_data:{nm}',
                                 'op': opi,
                                 'msg': f'op#{opi} save_data changed its '
                                        f'{nm} argument in place: '
                                        f'kwargs now {kwargs}'})
            if op.get('scribble'):
                # the caller reuses its buffers after saving
                for v in sorted(data):
                    if isinstance(data[v], list):
                        for a in data[v]:
                            if isinstance(a, np.ndarray) and a.size:
                                a[...] = -777
                probe('scribbled_on_saved_arrays')
            tr.event('save', op=op, outcome=outcome,
                     fired=(fired or {}).get('what'))
            if handed_changed(opi, 'save_data'):
                break
        else:
            kwargs = {'it': list(op['it']), 'rl': op['rl']}
            if op.get('kw_it_array'):
                kwargs['it'] = np.array(op['it'])
            if op['vars']:
                kwargs['vars'] = list(op['vars'])
            else:
                probe('read_all_vars')
            before = (digest(kwargs), digest(param))
            its = sorted(set(op['it']))
            if list(op['it']) != its:
                probe('read_dup_or_unsorted_it')
            plan.arm(op.get('fault'))
            try:
                got = aurel.read_data(param, **kwargs)
            except Exception as e:   # noqa: BLE001
                fired = plan.disarm()
                tr.event('read', op=op, outcome=type(e).__name__)
                if fired is not None:
                    fault('io_fault_fired_in_read')   # raising is fine
                    continue
                viol.append({'sig': f'read:raised:{type(e).__name__}',
                             'op': opi,
                             'msg': f'op#{opi} read_data({kwargs}) raised '
                                    f'{type(e).__name__}: {e}'})
                break
            fired = plan.disarm()
            if fired is not None:
                fault('io_fault_fired_in_read')
            if failed_save_seen:
                probe('read_after_failed_save')
            after = (digest(kwargs), digest(param))
            if after != before:
                viol.append({'sig': 'args_mutated:read_data', 'op': opi,
                             'msg': f'op#{opi} read_data changed its '
                                    f'arguments in place: {kwargs}'})
            tr.event('read', op=op, result=digest(got))
            if handed_changed(opi, 'read_data'):
                break
            # ---- oracle ----------------------------------------------------
            if list(np.asarray(got.get('it', [])).tolist()) != its:
                viol.append({'sig': 'read:it_column', 'op': opi,
                             'msg': f"op#{opi} returned it={got.get('it')} "
                                    f'for requested {op["it"]}'})
            rl = op['rl']
            if op['vars']:
                want = sorted(set(op['vars']) | {'t'})
            else:
                # a column is certain to exist if some requested iteration
                # certainly holds the variable
                want = sorted({k for iv in its
                               for (k, r), cands in model.get(iv, {}).items()
                               if r == rl and k != 'it'
                               and all(c is not None for c in cands)} | {'t'})
            for v in want:
                if v not in got:
                    viol.append({'sig': 'read:missing_column', 'op': opi,
                                 'msg': f'op#{opi} read_data({kwargs}) has no'
                                        f' column {v!r}; keys {sorted(got)}'})
                    continue
            for v in sorted(k for k in got if k != 'it'):
                col = got[v]
                if len(col) != len(its):
                    viol.append({'sig': 'read:column_length', 'op': opi,
                                 'msg': f'op#{opi} column {v!r} has {len(col)}'
                                        f' entries for {len(its)} iterations'})
                    continue
                for pos, iv in enumerate(its):
                    cands = model.get(iv, {}).get((v, rl), [None])
                    g = col[pos]
                    if iv not in model:
                        probe('read_missing_it')
                    if len(cands) > 1:
                        probe('uncertain_entry_compared')
                        if g is None:
                            if any(c is None for c in cands):
                                continue
                        elif any(c is not None and _same(g, c)
                                 for c in cands):
                            compared += 1
                            continue
                        src = (origin.get(digest(np.array(g)), f'value {g!r}')
                               if g is not None else 'None')
                        viol.append({
                            'sig': 'read:after_failed_save:neither_old_nor_new',
                            'op': opi,
                            'msg': f'op#{opi} read it={iv} var={v!r} rl={rl} '
                                   f'returned [{src}] after a failed save; '
                                   f'allowed: ' + ', '.join(
                                       'absent' if c is None else
                                       origin.get(digest(c), '?')
                                       for c in cands)})
                        continue
                    exp = cands[0]
                    if exp is None and g is None:
                        probe('read_none_expected')
                        continue
                    if exp is None:
                        viol.append({
                            'sig': 'read:unexpected_value', 'op': opi,
                            'msg': f'op#{opi} read it={iv} var={v!r} rl={rl} '
                                   f'returned data but nothing was saved; it '
                                   f'is {origin.get(digest(np.array(g)), "?")}'
                        })
                        continue
                    if g is None:
                        viol.append({
                            'sig': 'read:missing_value', 'op': opi,
                            'msg': f'op#{opi} read it={iv} var={v!r} rl={rl} '
                                   f'returned None but '
                                   f'{origin.get(digest(exp), "t/it column")}'
                                   f' was saved (datapath={datapath!r})'})
                        continue
                    compared += 1
                    probe('read_compared_array')
                    g = np.array(g)
                    if not _same(g, exp):
                        src = origin.get(digest(g))
                        if src is None and v in ('t', 'it'):
                            src = f'value {g!r}'
                        eo = origin.get(digest(exp), f'value {exp!r}')
                        kind = 'unknown_origin'
                        if src and eo and src.split(' save')[0] == \
                                eo.split(' save')[0]:
                            kind = 'same_save_other_position'
                        elif src:
                            kind = 'other_save'
                        if v in ('t', 'it'):
                            kind = 'tcolumn_' + kind
                        viol.append({
                            'sig': f'read:wrong_array:{kind}', 'op': opi,
                            'msg': f'op#{opi} read it={iv} var={v!r} rl={rl}'
                                   f' returned [{src}] but expected [{eo}]'})
            if not op.get('scribble'):
                # the caller keeps what it got (e.g. inside an AurelCore)
                for v in sorted(got):
                    if isinstance(got[v], list):
                        for pos, a in enumerate(got[v]):
                            if isinstance(a, np.ndarray) and a.size:
                                handed.append((f'op#{opi} read {v!r}[{pos}]',
                                               a, digest(a)))
                probe('kept_returned_arrays')
            if op.get('scribble'):
                # the caller works on what it got (normalises, masks ...)
                for v in sorted(got):
                    colv = got[v]
                    if isinstance(colv, np.ndarray):
                        continue               # the 'it' column
                    for a in colv:
                        if isinstance(a, np.ndarray) and a.size \
                                and a.flags.writeable and not any(
                                    a is h[1] for h in handed):
                            a[...] = -555
                probe('scribbled_on_returned_arrays')
            if viol:
                break
    kinds = ','.join(o['op'][0] for o in run['ops'])
    nstored = sum(len(d) for _, m_ in stores.values() for d in m_.values())
    state_sig = digest([kinds, sorted(faults.items()), nstored])
    return {'violations': viol[:6], 'digest': tr.hexdigest(),
            'n_ops': len(run['ops']), 'faults': faults, 'probes': probes,
            'state_sig': state_sig,
            'nontrivial': compared > 0 and bool(faults),
            'logical': {'ops': len(run['ops']), 'arrays_compared': compared}}
