"""C15 - symbolic core gives the textbook tensors (engine: symsim).

System: the real AurelCoreSymbolic with a generated metric (2-4 dimensions,
diagonal and non-diagonal, polynomial / rational / exponential entries),
simplify in {False, True}.  Ops: a seeded sequence (with repeats) of requests
for the ten quantities - the cache state decides which branch of Riemann_down
and Ricci_down runs.  Oracle: an independent pointwise reference (full sums,
no symmetry or vanishing shortcuts) evaluated with exact rational / 40-digit
arithmetic at three seeded rational points; only the metric entries are
differentiated symbolically.  DESIGN.md section 4 / C15.
"""
import copy

PROP = 'C15'
ENGINE = 'symsim'
HASH_CLASSES = 1
RUNS = {'quick': 128, 'thorough': 4000}
RUN_TIMEOUT = 75
DETERMINISM_RUNS = 8
RULE = ("Each run = one generated symbolic metric (dim 2/3/4; diagonal, "
        "non-diagonal, conformally flat; polynomial/rational/exp entries "
        "depending on every coordinate) x simplify flag (True only for "
        "families measured to finish: dim 2, and diagonal dim 3) x a seeded "
        "request sequence of 3-10 GETs over the ten quantities (with "
        "repeats). After every GET the returned object is evaluated at 3 "
        "rational points and compared with the independent reference. "
        "Non-trivial: metric non-flat AND >=1 of Riemann_down/Ricci_down "
        "was computed. Distinct = distinct (dim, family, simplify, request "
        "order).")
PROBES = ['request_interrupted', 'request_after_interruption_checked',
          'nondiagonal_metric', 'simplify_true', 'simplify_false',
          'special_family', 'earlier_instance_in_session',
          'riemann_down_from_cached_uddd', 'riemann_down_direct',
          'ricci_from_cached_uddd', 'ricci_direct', 'dim2', 'dim3', 'dim4',
          'repeated_request']
COMPONENTS = {
    'aurel.coresymbolic.AurelCoreSymbolic (all ten quantities, cache, '
    'simplify handling)': 'real',
    'sympy': 'real (used by the SUT; the oracle uses it only to '
             'differentiate metric entries and for exact arithmetic)',
    'reference tensors': 'harness: pointwise full-sum evaluation'}
ASSUMPTIONS = [
    'equality is tested at 3 seeded rational points per run (relative '
    'tolerance 1e-9: the SUT introduces the float 0.5), not symbolically',
    'simplify=True is only explored for 2-D metrics and diagonal 3-D '
    'metrics (a 3-D non-diagonal metric took 154 s, a 4-D one > 4 min in '
    'the design probes); all families run with simplify=False']

KEYS = ['gdown', 'gup', 'gdet', 'Gamma_down', 'Gamma_udd', 'Riemann_down',
        'Riemann_uddd', 'Ricci_down', 'RicciS', 'Einstein_down']
COORDS = ['t', 'x', 'y', 'z']


def _entry(g, dim, kind, diag, sign):
    """JSON description of one metric entry as a small expression tree."""
    vs = list(range(dim))
    if kind == 'poly':
        terms = [[g.pick([1, 2, 3, -1]) if not diag else g.pick([1, 2, 3]),
                  []]]
        for _ in range(g.randint(1, 2)):
            terms.append([g.pick([1, 2, -1, 3]) * (1 if diag else 1),
                          [g.pick(vs) for _ in range(g.randint(1, 2))]])
        return {'k': 'poly', 'terms': terms, 'sign': sign, 'sq': diag}
    if kind == 'exp':
        return {'k': 'exp', 'coef': [g.pick([-1, 1, 2]) if g.chance(0.6)
                                     else 0 for _ in vs], 'sign': sign}
    return {'k': 'rat', 'v': g.pick(vs), 'p': g.pick([1, 2, -1]),
            'sign': sign}


SPECIAL = ['double_null2', 'ppwave4', 'radiation_flrw4', 'zero_minor3',
           'reissner_nordstrom4', 'kasner4', 'schwarzschild4', 'sphere2',
           'null_first3', 'abs_wall3', 'abs_wall2']


def generate(rng, tier):
    run = _generate(rng, tier)
    gh = rng.child('c15hist')
    # the caller looks at the default metric before supplying its own; an
    # earlier object of the same dimension with a diagonal metric was used in
    # the same session
    run['config']['look_at_default_first'] = gh.chance(0.2)
    run['config']['earlier_diagonal_object'] = gh.chance(0.3)
    # fault: a request is interrupted between caching the raw result and its
    # post-processing (simplify=True: inside the n-th sympy.simplify call of
    # the request; otherwise inside the n-th progress message, verbose=True);
    # the caller asks again afterwards
    gf = rng.child('c15faults')
    if gf.chance(0.3):
        cfg = run['config']
        seam = 'simplify' if cfg['simplify'] else 'print'
        cfg['verbose'] = seam == 'print'
        ops = []
        for op in run['ops']:
            if gf.chance(0.35):
                ops.append(dict(op, fault={'seam': seam, 'at': gf.weighted(
                    [(1, 4), (2, 3), (3, 2), (4, 1)])}))
                if gf.chance(0.7):
                    ops.append(dict(op))          # the retry
            else:
                ops.append(op)
        run['ops'] = ops
    return run


def _generate(rng, tier):
    g = rng.child('c15')
    if g.chance(0.2):
        # classic metrics with special structure (null coordinates, vanishing
        # leading minors, R = 0 with Ricci != 0, true vacuum)
        name = g.pick(SPECIAL)
        dim = int(name[-1])
        simp = (name in ('double_null2', 'sphere2', 'abs_wall2', 'abs_wall3')
                and g.chance(0.5)) or (
            name == 'reissner_nordstrom4' and g.chance(0.15))
        ops = [{'op': 'GET', 'key': g.pick(KEYS)}
               for _ in range(g.randint(3, 8))]
        if g.chance(0.7):
            ops.append({'op': 'GET', 'key': 'Einstein_down'})
        pts = [[[g.randint(1, 9), g.pick([2, 3, 4, 5, 7])]
                for _ in range(dim)] for _ in range(3)]
        if name.startswith('abs_wall'):
            # sign-sensitive metric: sample both sides of the wall
            for n, p_ in enumerate(pts):
                p_[-1][0] = -p_[-1][0] if n % 2 == 0 else p_[-1][0]
        return {'config': {'dim': dim, 'family': 'special:' + name,
                           'special': name, 'diag': [], 'off': {},
                           'conf': None, 'simplify': bool(simp),
                           'points': pts}, 'ops': ops}
    dim = g.weighted([(2, 3), (3, 4), (4, 3)])
    family = g.weighted([('diag', 3), ('nondiag', 5), ('conformal', 2)])
    lorentz = (dim == 4) or g.chance(0.3)
    diag = []
    for i in range(dim):
        sign = -1 if (lorentz and i == 0) else 1
        diag.append(_entry(g, dim, g.weighted([('poly', 4), ('exp', 2),
                                               ('rat', 2)]), True, sign))
    off = {}
    if family == 'nondiag':
        pairs = [(i, j) for i in range(dim) for j in range(i + 1, dim)]
        nmax = {2: 1, 3: 2, 4: 1}[dim]
        for (i, j) in g.sample(pairs, g.randint(1, min(nmax, len(pairs)))):
            off[f'{i},{j}'] = {'k': 'small', 'v': g.pick(range(dim)),
                               'c': g.pick([1, 2, 3]), 'w': g.pick(
                                   range(dim))}
    conf = None
    if family == 'conformal':
        conf = [g.pick([1, -1, 2]) if g.chance(0.7) else 0
                for _ in range(dim)]
    simp = False
    if dim == 2 and g.chance(0.5 if family != 'nondiag' else 0.2):
        simp = True
    if dim == 3 and family == 'diag' and g.chance(0.3):
        simp = True
    n = g.randint(3, 10)
    ops = []
    for _ in range(n):
        r = g.random()
        if r < 0.45:
            k = g.pick(['Riemann_down', 'Riemann_uddd', 'Ricci_down',
                        'Gamma_udd', 'Gamma_down'])
        else:
            k = g.pick(KEYS)
        ops.append({'op': 'GET', 'key': k})
    pts = []
    for _ in range(3):
        pts.append([[g.randint(1, 9), g.pick([2, 3, 4, 5, 7])]
                    for _ in range(dim)])
    return {'config': {'dim': dim, 'family': family, 'diag': diag,
                       'off': off, 'conf': conf, 'simplify': simp,
                       'points': pts,
                       'prelude': dim == 2 and g.chance(0.3)}, 'ops': ops}


def fixup(run):
    return run if run['ops'] else None


def simplify(run):
    for flag in ('look_at_default_first', 'earlier_diagonal_object',
                 'prelude'):
        if run['config'].get(flag):
            c = copy.deepcopy(run); c['config'][flag] = False; yield c
    for i, o in enumerate(run['ops']):
        if o.get('fault'):
            c = copy.deepcopy(run); del c['ops'][i]['fault']; yield c
    cfg = run['config']
    if cfg.get('special'):
        if cfg['simplify']:
            c = copy.deepcopy(run); c['config']['simplify'] = False; yield c
        if len(cfg['points']) > 1:
            c = copy.deepcopy(run); c['config']['points'].pop(); yield c
        return
    if cfg['simplify']:
        c = copy.deepcopy(run); c['config']['simplify'] = False; yield c
    if cfg.get('prelude'):
        c = copy.deepcopy(run); c['config']['prelude'] = False; yield c
    for k in sorted(cfg['off']):
        c = copy.deepcopy(run); del c['config']['off'][k]; yield c
    if len(cfg['points']) > 1:
        c = copy.deepcopy(run); c['config']['points'].pop(); yield c
    for i, e in enumerate(cfg['diag']):
        if e['k'] != 'poly' or len(e.get('terms', [])) > 1:
            c = copy.deepcopy(run)
            c['config']['diag'][i] = {'k': 'poly', 'terms': [[1, []]],
                                      'sign': e['sign'], 'sq': True}
            yield c


# ---------------------------------------------------------------------------
def special_metric(name, sp):
    t, x, y, z = sp.symbols('t x y z')
    if name == 'double_null2':
        u, v = sp.symbols('u v')
        w = u * v / 4 + u
        return [u, v], sp.Matrix([[0, -sp.exp(2 * w) / 2],
                                  [-sp.exp(2 * w) / 2, 0]])
    if name == 'sphere2':
        th, ph = sp.symbols('theta phi')
        return [th, ph], sp.Matrix([[1, 0], [0, sp.sin(th) ** 2]])
    if name == 'ppwave4':
        u, v = sp.symbols('u v')
        H = (x ** 2 - y ** 2) * sp.cos(u) + x * y
        return [v, u, x, y], sp.Matrix([[0, 1, 0, 0], [1, H, 0, 0],
                                        [0, 0, 1, 0], [0, 0, 0, 1]])
    if name == 'radiation_flrw4':
        return [t, x, y, z], sp.diag(-1, t, t, t)
    if name == 'kasner4':
        p1, p2, p3 = sp.Rational(-1, 3), sp.Rational(2, 3), sp.Rational(2, 3)
        return [t, x, y, z], sp.diag(-1, t ** (2 * p1), t ** (2 * p2),
                                     t ** (2 * p3))
    if name == 'zero_minor3':
        # g_00 g_11 - g_01^2 = 0 everywhere, det g != 0
        return [x, y, z], sp.Matrix([[1 + x ** 2, 1 + x ** 2, 0],
                                     [1 + x ** 2, 1 + x ** 2, y + 2],
                                     [0, y + 2, 1]])
    if name in ('abs_wall3', 'abs_wall2'):
        tr, xr, zr = sp.symbols('t x z', real=True)
        w = sp.exp(-sp.Rational(3, 2) * sp.Abs(zr))
        if name == 'abs_wall2':
            return [tr, zr], sp.Matrix([[-w * (1 + tr ** 2), 0], [0, 1]])
        return [tr, xr, zr], sp.Matrix([[-w, 0, 0], [0, w, xr / 5],
                                        [0, xr / 5, 1]])
    if name == 'null_first3':
        return [x, y, z], sp.Matrix([[0, 1 + y ** 2, 0],
                                     [1 + y ** 2, x, 0],
                                     [0, 0, 1 + x ** 2]])
    r, th, ph = sp.symbols('r theta phi')
    if name == 'reissner_nordstrom4':
        f = 1 - 2 / r + sp.Rational(1, 4) / r ** 2
    else:
        f = 1 - sp.Rational(1, 2) / r
    return [t, r, th, ph], sp.diag(-f, 1 / f, r ** 2,
                                   r ** 2 * sp.sin(th) ** 2)


def build_metric(cfg, sp):
    if cfg.get('special'):
        return special_metric(cfg['special'], sp)
    dim = cfg['dim']
    xs = sp.symbols(' '.join(COORDS[:dim] if dim == 4 else COORDS[1:dim + 1]))
    if dim == 1:
        xs = (xs,)
    xs = list(xs)
    one = sp.Integer(1)

    def ent(e):
        if e['k'] == 'poly':
            s = sp.Integer(0)
            for c, vs in e['terms']:
                t = sp.Integer(c)
                for v in vs:
                    t *= xs[v]
                s += t
            val = (one + s ** 2) if e.get('sq') else s
            return e['sign'] * val
        if e['k'] == 'exp':
            return e['sign'] * sp.exp(sum(sp.Integer(c) * x for c, x in
                                          zip(e['coef'], xs)))
        if e['k'] == 'rat':
            return e['sign'] * (one + xs[e['v']] ** 2) ** e['p']
        raise KeyError(e['k'])
    g = sp.zeros(dim, dim)
    for i in range(dim):
        g[i, i] = ent(cfg['diag'][i])
    for k, e in cfg['off'].items():
        i, j = map(int, k.split(','))
        val = sp.Rational(1, 4 + e['c']) * xs[e['v']] * sp.sin(xs[e['w']]) \
            if e['c'] == 3 else sp.Rational(1, 4 + e['c']) * xs[e['v']]
        g[i, j] = g[j, i] = val
    if cfg['conf'] is not None:
        f = sp.exp(2 * sum(sp.Integer(c) * x for c, x in
                           zip(cfg['conf'], xs)))
        eta = sp.diag(*[-1 if (cfg['diag'][i]['sign'] < 0) else 1
                        for i in range(dim)])
        g = f * eta
    return xs, g


def reference_at(xs, g, pt, sp):
    """Textbook tensors at one point, full sums, exact/40-digit numbers."""
    n = len(xs)
    sub = dict(zip(xs, pt))

    def num(e):
        v = sp.sympify(e).subs(sub)
        if v.free_symbols:
            raise ValueError('unevaluated')
        return sp.nsimplify(v) if v.is_Rational else sp.N(v, 40)
    G = sp.Matrix(n, n, lambda i, j: num(g[i, j]))
    dG = [[[num(sp.diff(g[i, j], xs[m])) for j in range(n)]
           for i in range(n)] for m in range(n)]           # dG[m][i][j]
    ddG = [[[[num(sp.diff(g[i, j], xs[m], xs[p])) for j in range(n)]
             for i in range(n)] for p in range(n)] for m in range(n)]
    Gi = G.inv()
    det = G.det()
    R = range(n)
    Gd = [[[sp.Rational(1, 2) * (dG[j][i][k] + dG[k][i][j] - dG[i][j][k])
            for k in R] for j in R] for i in R]            # Gamma_{ijk}
    Gu = [[[sum(Gi[i, m] * Gd[m][j][k] for m in R) for k in R] for j in R]
          for i in R]
    dGi = [[[-sum(Gi[a, p] * dG[e][p][q] * Gi[q, d] for p in R for q in R)
             for d in R] for a in R] for e in R]           # d_e g^{ad}
    dGd = [[[[sp.Rational(1, 2) * (ddG[e][j][i][k] + ddG[e][k][i][j]
                                   - ddG[e][i][j][k])
              for k in R] for j in R] for i in R] for e in R]
    dGu = [[[[sum(dGi[e][i][m] * Gd[m][j][k] + Gi[i, m] * dGd[e][m][j][k]
                  for m in R) for k in R] for j in R] for i in R] for e in R]
    Ru = [[[[dGu[k][i][j][h] - dGu[h][i][j][k]
             + sum(Gu[i][k][m] * Gu[m][j][h] - Gu[i][h][m] * Gu[m][j][k]
                   for m in R)
             for h in R] for k in R] for j in R] for i in R]
    Rd = [[[[sum(G[i, m] * Ru[m][j][k][h] for m in R) for h in R] for k in R]
           for j in R] for i in R]
    Ric = [[sum(Ru[k][i][k][j] for k in R) for j in R] for i in R]
    RS = sum(Gi[i, j] * Ric[i][j] for i in R for j in R)
    Ein = [[Ric[i][j] - sp.Rational(1, 2) * G[i, j] * RS for j in R]
           for i in R]
    return {'gdown': [[G[i, j] for j in R] for i in R],
            'gup': [[Gi[i, j] for j in R] for i in R], 'gdet': det,
            'Gamma_down': Gd, 'Gamma_udd': Gu, 'Riemann_down': Rd,
            'Riemann_uddd': Ru, 'Ricci_down': Ric, 'RicciS': RS,
            'Einstein_down': Ein}


_NAT = {'gdown': ('gdown',), 'gup': ('gup',), 'gdet': ('gdet',),
        'Gamma_down': ('Gamma_down', 'gdown'),
        'Gamma_udd': ('Gamma_udd', 'Gamma_down'),
        'Riemann_down': ('Riemann_down', 'Riemann_uddd', 'Gamma_down'),
        'Riemann_uddd': ('Riemann_uddd', 'Gamma_udd'),
        'Ricci_down': ('Ricci_down', 'Riemann_uddd'),
        'RicciS': ('RicciS', 'Ricci_down', 'Riemann_uddd'),
        'Einstein_down': ('Einstein_down', 'Ricci_down', 'Riemann_uddd',
                          'Riemann_down')}


def natural_scale(ref, key, sp):
    m = 0.0
    for k in _NAT[key]:
        for w in _flat(ref[k], sp):
            m = max(m, abs(complex(sp.N(w, 20))))
    if key in ('RicciS', 'Einstein_down', 'Ricci_down'):
        # products g^ij R_ij and g_ij R enter
        gm = max(abs(complex(sp.N(w, 20))) for w in _flat(ref['gdown'], sp))
        gu = max(abs(complex(sp.N(w, 20))) for w in _flat(ref['gup'], sp))
        m = m * max(1.0, gm * gu)
    return m


def _flat(v, sp):
    if isinstance(v, (list, tuple)):
        out = []
        for x in v:
            out += _flat(x, sp)
        return out
    if isinstance(v, (sp.MatrixBase, sp.NDimArray)) or (
            hasattr(v, 'tolist') and not isinstance(v, sp.Expr)):
        return _flat(v.tolist(), sp)
    return [v]


def execute(run):
    """Wrapper: a time-out anywhere (also while the reference or the metric
    is being built) makes the run inconclusive, never a harness error."""
    from ..runner import RunTimeout
    try:
        return _execute(run)
    except RunTimeout:
        return {'violations': [], 'digest': 'inconclusive-timeout',
                'n_ops': len(run['ops']), 'faults': {}, 'probes': {},
                'state_sig': 'timeout', 'nontrivial': False,
                'inconclusive': 1, 'logical': {'ops': len(run['ops'])}}


class InjectedFault(Exception):
    """The simulated interruption of a request."""


class _Seams:
    """aurel.coresymbolic's names `sp` (sympy) and `print`, owned by the
    simulator: the n-th simplify / print of an armed request raises."""

    def __init__(self):
        import sympy
        import aurel.coresymbolic as cs
        self.cs, self.sympy = cs, sympy
        self.armed = None
        self.count = 0
        self.fired = False
        seams = self

        class SpProxy:
            def simplify(self_, *a, **k):
                seams.hit('simplify')
                return sympy.simplify(*a, **k)

            def __getattr__(self_, name):
                return getattr(sympy, name)

        def fprint(*a, **k):
            seams.hit('print')

        self.old_sp = cs.sp
        cs.sp = SpProxy()
        cs.print = fprint

    def hit(self, seam):
        a = self.armed
        if a is None or a['seam'] != seam:
            return
        self.count += 1
        if self.count == a['at']:
            self.armed = None
            self.fired = True
            raise InjectedFault(f'interrupted in {seam} call #{self.count}')

    def arm(self, spec):
        self.armed = dict(spec) if spec else None
        self.count = 0
        self.fired = False

    def close(self):
        self.cs.sp = self.old_sp
        try:
            del self.cs.print
        except AttributeError:
            pass


def _execute(run):
    seams = _Seams()
    try:
        return _execute2(run, seams)
    finally:
        seams.close()


def _execute2(run, seams):
    import sympy as sp
    import aurel
    from ..digest import Trace, digest
    cfg = run['config']
    tr = Trace()
    viol, faults, probes = [], {}, {}

    def probe(k, n=1):
        probes[k] = probes.get(k, 0) + n

    xs, g = build_metric(cfg, sp)
    dim = cfg['dim']
    probe(f'dim{dim}')
    if cfg.get('special'):
        probe('special_family')
        probe('special:' + cfg['special'])
    nondiag = any(g[i, j] != 0 for i in range(dim) for j in range(dim)
                  if i != j)
    if nondiag:
        probe('nondiagonal_metric')
    probe('simplify_true' if cfg['simplify'] else 'simplify_false')
    pts = [[sp.Rational(a, b) for a, b in p] for p in cfg['points']]
    refs = []
    for p in pts:
        try:
            refs.append(reference_at(xs, g, p, sp))
        except Exception:  # noqa: BLE001 - singular at this point: skip it
            refs.append(None)
    if all(r is None for r in refs):
        return {'violations': [], 'digest': tr.hexdigest(), 'n_ops': 0,
                'faults': {}, 'probes': probes, 'state_sig': 'singular',
                'nontrivial': False, 'vacuous': len(run['ops'])}
    if cfg.get('prelude') and not cfg.get('special'):
        pos = [sp.Symbol(str(x_), positive=True) for x_ in xs]
        g0 = g.subs(dict(zip(xs, pos)))
        pre = aurel.AurelCoreSymbolic(pos, verbose=False, simplify=False)
        pre.data['gdown'] = g0
        try:
            pre['RicciS']
            probe('earlier_instance_in_session')
        except Exception:  # noqa: BLE001 - the prelude claims nothing
            pass
    if cfg.get('earlier_diagonal_object'):
        try:
            d0 = aurel.AurelCoreSymbolic(xs, verbose=False, simplify=False)
            d0.data['gdown'] = sp.diag(*[
                (-1 if i == 0 and dim == 4 else 1) * (1 + xs[i - 1] ** 2)
                for i in range(dim)])
            for k0 in ('Gamma_udd', 'Gamma_down', 'Ricci_down'):
                d0[k0]
            probe('earlier_diagonal_object_in_session')
        except Exception:  # noqa: BLE001 - claims nothing
            pass
    rel = aurel.AurelCoreSymbolic(xs, verbose=bool(cfg.get('verbose')),
                                  simplify=cfg['simplify'])
    if cfg.get('look_at_default_first'):
        try:
            rel['gdown']                   # the documented default metric
            probe('default_metric_looked_at_first')
        except Exception:  # noqa: BLE001
            pass
    rel.data['gdown'] = g
    from ..runner import RunTimeout
    compared = 0
    timed_out = False
    curved = False
    asked = set()
    interrupted = False
    try:
        for opi, op in enumerate(run['ops']):
            if viol:
                break
            key = op['key']
            if key in asked:
                probe('repeated_request')
            if key == 'Riemann_down' and key not in rel.data:
                probe('riemann_down_from_cached_uddd'
                      if 'Riemann_uddd' in rel.data else 'riemann_down_direct')
            if key == 'Ricci_down' and key not in rel.data:
                probe('ricci_from_cached_uddd' if 'Riemann_uddd' in rel.data
                      else 'ricci_direct')
            state = sorted(k for k in rel.data if k != 'gdown')
            seams.arm(op.get('fault'))
            try:
                val = rel[key]
                seams.arm(None)
            except InjectedFault:
                # the interrupted request promises nothing; what it left in
                # the cache is judged by every later request
                seams.arm(None)
                faults['request_interrupted'] = faults.get(
                    'request_interrupted', 0) + 1
                probe('request_interrupted')
                probe('interrupted_in_' + op['fault']['seam'])
                interrupted = True
                tr.event('get', key=key, outcome='interrupted')
                continue
            except Exception as e:  # noqa: BLE001
                viol.append({'sig': f'raised:{key}:{type(e).__name__}',
                             'op': opi,
                             'msg': f'op#{opi} GET {key} raised '
                                    f'{type(e).__name__}: {e}'})
                break
            asked.add(key)
            if interrupted:
                probe('request_after_interruption_checked')
            got = _flat(val, sp)
            tr.event('get', key=key, n=len(got))
            for p, ref in zip(pts, refs):
                if ref is None:
                    continue
                want = _flat(ref[key], sp)
                if len(got) != len(want):
                    viol.append({'sig': f'shape:{key}', 'op': opi,
                                 'msg': f'op#{opi} {key} has {len(got)} '
                                        f'components, expected {len(want)}'})
                    break
                sub = dict(zip(xs, p))
                worst = None
                scale = max([abs(complex(sp.N(w, 20))) for w in want]
                            + [1e-30])
                # the SUT works with the float 0.5: a quantity that vanishes
                # by cancellation (e.g. the 2-D Einstein tensor) carries
                # round-off of the size of its ingredients, so the tolerance
                # is tied to the natural scale of the key, not to the (zero)
                # result
                scale = max(scale, natural_scale(ref, key, sp))
                for ci, (a, b) in enumerate(zip(got, want)):
                    av = sp.N(sp.sympify(a).subs(sub), 30)
                    bv = sp.N(b, 30)
                    if av.free_symbols:
                        worst = (ci, av, bv, float('inf'))
                        break
                    d = abs(complex(av) - complex(bv))
                    if d != d or d in (float('inf'),):
                        # NaN / zoo from the SUT where the reference is
                        # finite: never "equal"
                        worst = (ci, av, bv, float('inf'))
                        break
                    if d > 1e-9 * scale + 1e-12 and (worst is None
                                                     or d > worst[3]):
                        worst = (ci, av, bv, d)
                compared += 1
                if key in ('Riemann_down', 'Ricci_down', 'Riemann_uddd') and \
                        scale > 1e-9:
                    curved = True
                if worst is not None:
                    ci, av, bv, d = worst
                    nd = {'gdown': 2, 'gup': 2, 'gdet': 0, 'Gamma_down': 3,
                          'Gamma_udd': 3, 'Riemann_down': 4, 'Riemann_uddd': 4,
                          'Ricci_down': 2, 'RicciS': 0, 'Einstein_down': 2}[key]
                    idx, r = [], ci
                    for _ in range(nd):
                        idx.append(r % dim)
                        r //= dim
                    idx = idx[::-1]
                    branch = ''
                    if key in ('Riemann_down', 'Ricci_down'):
                        branch = (':from_uddd' if 'Riemann_uddd' in state
                                  else ':direct')
                    viol.append({
                        'sig': f'value:{key}{branch}:'
                               f'{"nondiag" if nondiag else "diag"}:'
                               f'simplify{int(cfg["simplify"])}',
                        'op': opi,
                        'msg': f'op#{opi} {key}{idx} at point '
                               f'{[str(q) for q in p]} = {sp.N(av, 12)} but the '
                               f'textbook value is {sp.N(bv, 12)} (dim {dim}, '
                               f'{cfg["family"]}, simplify={cfg["simplify"]}, '
                               f'cached before: {state}; metric {g.tolist()})'})
                    break
    except RunTimeout:
        # sympy did not finish within the per-run budget: inconclusive,
        # never a pass and never a violation (DESIGN 4 / C15)
        timed_out = True
    state_sig = digest([dim, cfg['family'], cfg['simplify'],
                        [o['key'] for o in run['ops']]])
    return {'violations': viol[:3],
            'digest': ('inconclusive-timeout' if timed_out
                       else tr.hexdigest()),
            'n_ops': len(run['ops']), 'faults': faults, 'probes': probes,
            'state_sig': state_sig,
            'nontrivial': curved and bool(
                asked & {'Riemann_down', 'Ricci_down'}),
            'inconclusive': int(timed_out),
            'logical': {'ops': len(run['ops']),
                        'point_evaluations': compared}}
