"""C03 - frozen inputs are never evicted; clean-up bookkeeping consistent.

Same machine as C01 with the maximal-pressure part of the knob space
over-weighted.  Invariants after every op and every cleanup_cache call:
frozen entries present / same object / same bytes; last_accessed subset of
data; entries only replaced after an eviction; clean-up raises nothing and
makes <= (n+2)^2 size evaluations; every answer equals the fresh model's (no
silent fallback to the Minkowski defaults).  DESIGN 4 / C03.
"""
from . import _core_common as cc

PROP = 'C03'
ENGINE = 'coresim'
HASH_CLASSES = 1
RUNS = {'quick': 1200, 'thorough': 15000}
RUN_TIMEOUT = 240
DETERMINISM_RUNS = 8
RULE = ("Generator of C01 with 60% of runs at maximal eviction pressure "
        "(period 1-3, memory threshold 1-40 scalars), inputs frozen through "
        "freeze_data or load_data (85% of runs) or through over_time (15%: "
        "C14's workload at period 1-3 / threshold 1-10 scalars, frozen-entry "
        "oracle only), "
        "importance overrides incl. 0 (freeze) on computed entries. "
        "Invariants I1-I6 checked after every op. Non-trivial: >=1 eviction "
        "fired while frozen inputs were present AND >=1 value compared. "
        "Distinct = as C01.")
PROBES = ['eviction', 'eviction_during_nested_request',
          'importance_override', 'regular_cleanup_fired', 'cleanup_calls',
          'memory_loop_evictions', 'route_freeze_data', 'route_load_data',
          'route_over_time', 'eviction_inside_over_time', 'load_data_again',
          'alloc_failure_injected',
          'input_supplied_after_its_default_was_computed']
COMPONENTS = cc.COMPONENTS
ASSUMPTIONS = [
    'bounded termination is observed as: one clean-up makes at most (n+2)^2 '
    'size evaluations for n cached entries, and the per-run watchdog does '
    'not fire',
    'the value clause (I6) uses C01\'s comparison and tolerances']


_KEEP_TIME = ('frozen_evicted:', 'cleanup_bookkeeping')


warmup = cc.warmup


def generate(rng, tier):
    # 15 % of the runs freeze their inputs through the time-series driver
    # (the third documented route): C14's over_time workload with aggressive
    # cache knobs, of which only the frozen-entry / bookkeeping oracles are
    # reported here
    if rng.child('c03kind').chance(0.15):
        from . import C14
        run = C14.generate(rng, tier)
        run['config']['period'] = rng.child('c03p').pick([1, 1, 2, 3])
        run['config']['mem_scalars'] = rng.child('c03m').pick([1, 3, 10])
        run['kind'] = 'time'
        return run
    run = cc.generate(rng, tier, 'C03')
    run['kind'] = 'core'
    return run


def fixup(run):
    if run.get('kind') == 'time':
        from . import C14
        r = C14.fixup(run)
    else:
        r = cc.fixup(run)
    if r is not None:
        r['kind'] = run.get('kind', 'core')
    return r


def simplify(run):
    kind = run.get('kind', 'core')
    if kind == 'time':
        from . import C14
        gen = C14.simplify(run)
    else:
        gen = cc.simplify(run)
    for c in gen:
        c['kind'] = kind
        yield c


def execute(run):
    if run.get('kind') == 'time':
        from . import C14
        res = C14.execute(run)
        res['violations'] = [v for v in res['violations']
                             if v['sig'].startswith(_KEEP_TIME)]
        res['nontrivial'] = bool(res.get('faults', {}).get(
            'eviction_inside_over_time'))
        res.setdefault('probes', {})['route_over_time'] = 1
        res['state_sig'] = 'time:' + str(res.get('state_sig'))
        return res
    # I6 (no silent fallback to defaults) is C01's comparison; value
    # mismatches are reported by C01, C03 reports its own invariants I1-I5.
    res = cc.execute(run, 'C03', {'C03'})
    res.setdefault('probes', {})[
        'route_' + run['config'].get('freeze', 'freeze_data')] = 1
    return res
