"""C03 - frozen inputs are never evicted; clean-up bookkeeping consistent.

Same machine as C01 with the maximal-pressure part of the knob space
over-weighted.  Invariants after every op and every cleanup_cache call:
frozen entries present / same object / same bytes; last_accessed subset of
data; entries only replaced after an eviction; clean-up raises nothing and
makes <= (n+2)^2 size evaluations; every answer equals the fresh model's (no
silent fallback to the Minkowski defaults).  DESIGN 4 / C03.
"""
from . import _core_common as cc

PROP = 'C03'
ENGINE = 'coresim'
HASH_CLASSES = 1
RUNS = {'quick': 600, 'thorough': 15000}
RUN_TIMEOUT = 240
DETERMINISM_RUNS = 8
RULE = ("Generator of C01 with 60% of runs at maximal eviction pressure "
        "(period 1-3, memory threshold 1-40 scalars), inputs frozen through "
        "freeze_data or load_data (the over_time route is exercised in C14), "
        "importance overrides incl. 0 (freeze) on computed entries. "
        "Invariants I1-I6 checked after every op. Non-trivial: >=1 eviction "
        "fired while frozen inputs were present AND >=1 value compared. "
        "Distinct = as C01.")
PROBES = ['eviction', 'eviction_during_nested_request',
          'importance_override', 'regular_cleanup_fired', 'cleanup_calls',
          'memory_loop_evictions']
COMPONENTS = cc.COMPONENTS
ASSUMPTIONS = [
    'bounded termination is observed as: one clean-up makes at most (n+2)^2 '
    'size evaluations for n cached entries, and the per-run watchdog does '
    'not fire',
    'the value clause (I6) uses C01\'s comparison and tolerances']


def generate(rng, tier):
    return cc.generate(rng, tier, 'C03')


fixup = cc.fixup
simplify = cc.simplify


def execute(run):
    # I6 (no silent fallback to defaults) is C01's comparison restricted to
    # discrepancies that coincide with a frozen-input problem, so only C03's
    # own invariants are reported here; value mismatches are C01's.
    return cc.execute(run, 'C03', {'C03'})
