"""C11 - Einstein Toolkit output is read back exactly (engine: etsim+iosim).

System: a simulated multi-process, multi-restart ET run on disk (etsim) and
the real aurel readers (iterations, get_content, read_data with
split_per_it=False, join_chunks, fixij, name maps) behind the
enumeration-order seam and PYTHONHASHSEED classes.  Oracle: the writer's
ground truth, cell by cell.  DESIGN.md section 4 / C11.
"""
import copy

import numpy as np

from .. import etsim, iosim, seams_fs, seams_h5
from ..digest import Trace, digest

PROP = 'C11'
ENGINE = 'etsim+iosim'
HASH_CLASSES = 3
RUNS = {'quick': 2400, 'thorough': 40000}
RUN_TIMEOUT = 60
DETERMINISM_RUNS = 12
RULE = ("Each run = one seeded simulated ET run (1-4 restarts with "
        "crash/restart overlap, 1-2 levels, 1-30 processes, tensor-product / "
        "hierarchical z>y>x / arbitrary k-d decompositions, permuted chunk "
        "numbering, 4 file layouts x key-format variants, known + unknown "
        "groups) read back by 2-5 reader ops (read_data split_per_it=False "
        "with it/vars/rl/restart subsets incl. tensor names, direct "
        "join_chunks in seeded insertion order) under a seeded directory "
        "enumeration order and 3 hash seeds. Non-trivial: >=1 array compared "
        "cell by cell AND (P>1 or >1 restart). Distinct = distinct "
        "(layout flags, P, decomposition classes, #restarts, overlap?, "
        "enum mode, op kinds).")
PROBES = ['multi_chunk_read', 'overlap_iteration_served', 'tensor_name_read',
          'all_vars_read', 'explicit_restart_read', 'kd_raise_accepted',
          'absent_iteration_raise_accepted', 'level1_read',
          'per_proc_layout', 'grouped_layout', 'unknown_group_scan',
          'enum_permuted', 'numbering_permuted', 'join_direct',
          'P_ge_10', 'three_chunks', 'two_chunks', 'skip_last_default',
          'stride_change', 'checkpoint_read', 'phase_offset_outputs',
          'checkpoint_arrays_compared', 'split_per_it_read',
          'io_fault_fired', 'io_fault_raise_accepted',
          'second_simulation_with_the_same_name',
          'read_after_io_fault_checked']
COMPONENTS = {
    'aurel.reading (iterations, get_content, read_data/read_ET_data, '
    'read_ET_variables, read_ET_group_or_var, join_chunks, fixij, name maps)':
    'real', 'h5py + tmpfs directory': 'real',
    'Einstein Toolkit / Carpet writer': 'stub (etsim model, real HDF5 files)',
    'I/O errors (EIO when a data file is opened)': 'simulated (h5py proxy '
    'inside aurel.reading fails the n-th open of one call, 30% of the runs); '
    'that call may raise, every later call must be exact',
    'glob.glob / os.listdir order': 'simulated (seeded permutation of the '
                                    'real result)',
    'set/dict order': 'real, 3 PYTHONHASHSEED classes'}
ASSUMPTIONS = [
    'etsim reproduces the on-disk features aurel reads (file naming, dataset '
    'keys, cctk_nghostzones, iorigin, time, the non-dataset group); Carpet '
    'features it does not produce (multipatch, several components per '
    'process) are not covered',
    'tensor-product and hierarchical z>y>x decompositions are the supported '
    'rectilinear classes and must be exact; arbitrary k-d tilings must be '
    'exact or raise',
    'a request that includes an iteration absent at the requested level may '
    'raise']


def generate(rng, tier):
    kd = rng.chance(0.12)
    classes = ('tensor', 'hier', 'kd') if kd else ('tensor', 'hier')
    cfg = etsim.gen_config(rng, decomp_classes=classes,
                           max_P=30 if rng.chance(0.1) else 12,
                           allow_stride_change=rng.chance(0.08))
    g = rng.child('ops')
    enum = {'mode': g.pick(['sorted', 'reverse', 'shuffle', 'shuffle']),
            'seed': g.randrange(1 << 30)}
    outs = etsim.planned_outputs(cfg)
    nres = len(cfg['restarts'])
    nlev = len(cfg['levels'])
    avail = [etsim.aurel_name(v) for v in etsim.sim_vars(cfg)]
    tens = [t for t, cs in etsim.AUREL_TENSORS.items()
            if all(c in avail for c in cs)]
    ops = []
    for _ in range(g.randint(2, 5)):
        r = g.random()
        rl = g.randrange(nlev) if g.chance(0.5) else 0
        if r < 0.12:
            ops.append({'op': 'iterations', 'skip_last': g.chance(0.3)})
        elif r < 0.24:
            # read_data(usecheckpoints=True): checkpoint files hold every
            # variable at the checkpoint iterations
            chks = sorted({it for rs in cfg['restarts'] if not rs.get('empty')
                           for it in rs['chk']})
            if not chks:
                continue
            it = g.subset(chks, 0.3, 1.0, nonempty=True)
            if g.chance(0.3):
                g.shuffle(it)
            vs = ([g.pick(tens)] if tens and g.chance(0.4) else
                  g.subset(avail, 0.2, 0.8, nonempty=True))
            if g.chance(0.3):
                # a tensor name next to (some of) its own components
                vs = vs + g.subset(avail, 0.0, 0.4)
            ops.append({'op': 'read', 'it': it, 'vars': vs, 'rl': rl,
                        'restart': g.randrange(nres) if g.chance(0.2) else -1,
                        'skip_last': False, 'chk': True})
        elif r < 0.4:
            rr = g.randrange(nres)
            its = outs[rr].get(rl, [])
            if not its:
                continue
            ops.append({'op': 'join', 'restart': rr, 'rl': rl,
                        'it': g.pick(its), 'var': g.pick(etsim.sim_vars(cfg)),
                        'order': g.randrange(1 << 30)})
        else:
            present = sorted({it for rr in outs for it in outs[rr].get(rl, [])})
            if not present:
                continue
            it = g.subset(present, 0.2, 1.0, nonempty=True)
            if g.chance(0.12):
                it.append(g.randint(0, max(present) + 3))
            if g.chance(0.3):
                g.shuffle(it)
            if g.chance(0.1):
                it.append(it[0])
            vr = g.random()
            if vr < 0.15:
                vs = []
            elif vr < 0.45 and tens:
                vs = [g.pick(tens)] + g.subset(avail, 0.0, 0.4)
            else:
                vs = g.subset(avail, 0.2, 0.8, nonempty=True)
            if g.chance(0.08):
                vs = vs + ['rho0' if 'rho0' not in avail else 'eps']
            restart = -1
            skip_last = False
            if g.chance(0.15):
                restart = g.randrange(nres)
            elif g.chance(0.1) and nres > 1:
                skip_last = True
            op = {'op': 'read', 'it': it, 'vars': vs, 'rl': rl,
                  'restart': restart, 'skip_last': skip_last}
            if g.chance(0.2):
                # the default mode of read_data (per-iteration cache on);
                # the cache itself is C12's subject, here only the values
                op['split'] = True
                op['vars'] = [v for v in vs if v in avail or v in tens]
            ops.append(op)
    if not ops:
        ops.append({'op': 'iterations', 'skip_last': False})
    # I/O-error runs are separate from the fault-free ones (30%), and only
    # where every call looks at all restarts (what a failed call recorded
    # does not change what a later call can see then)
    gf = rng.child('iofaults')
    cfg['io_faults'] = gf.chance(0.3) and not any(
        o.get('skip_last') for o in ops)
    if cfg['io_faults']:
        for o in ops[:-1]:
            if o['op'] in ('read', 'iterations') and not o.get('chk') \
                    and gf.chance(0.5):
                o['fault'] = {'kind': 'open_r', 'err': 'EIO',
                              'at': gf.weighted([(1, 4), (2, 3), (3, 2),
                                                 (4, 2), (6, 1), (9, 1)]),
                              'when': gf.weighted([('before', 3),
                                                   ('after', 1)])}
    # a second simulation with the same NAME under another root, read in
    # between (same layout and values, other times)
    # IOHDF5 single-precision 3D output (checkpoints stay double precision)
    cfg['single_precision_3d'] = rng.child('single').chance(0.15)
    gt = rng.child('twin')
    if gt.chance(0.12):
        out = []
        for o in ops:
            out.append(o)
            if o['op'] == 'read' and not o.get('chk') and gt.chance(0.6):
                t = copy.deepcopy(o)
                t.pop('fault', None)
                t['twin'] = True
                out.append(t)
        ops = out
    return {'config': cfg, 'enum': enum, 'ops': ops}


def fixup(run):
    return run if run['ops'] else None


def simplify(run):
    cfg = run['config']
    if run['enum']['mode'] != 'sorted':
        c = copy.deepcopy(run); c['enum']['mode'] = 'sorted'; yield c
    used_restarts = {o.get('restart', -1) for o in run['ops']}
    if len(cfg['restarts']) > 1 and max(used_restarts, default=-1) < len(
            cfg['restarts']) - 1:
        c = copy.deepcopy(run); c['config']['restarts'].pop(); yield c
    for flag, val in (('with_m', False), ('c_single', False), ('xyz', ''),
                      ('grouped', False), ('per_proc', False),
                      ('chk_per_proc', False)):
        if any(rs[flag] != val for rs in cfg['restarts']):
            c = copy.deepcopy(run)
            for rs in c['config']['restarts']:
                rs[flag] = val
            yield c
    if any(rs['numbering'][l] != sorted(rs['numbering'][l])
           for rs in cfg['restarts'] for l in range(len(cfg['levels']))):
        c = copy.deepcopy(run)
        for rs in c['config']['restarts']:
            rs['numbering'] = [sorted(n) for n in rs['numbering']]
        yield c
    if cfg['ghost'] != [1, 1, 1]:
        c = copy.deepcopy(run); c['config']['ghost'] = [1, 1, 1]; yield c
    if len(cfg['levels']) > 1 and all(o.get('rl', 0) == 0
                                      for o in run['ops']):
        c = copy.deepcopy(run)
        c['config']['levels'] = c['config']['levels'][:1]
        for rs in c['config']['restarts']:
            for k in ('boxes', 'numbering', 'classes'):
                rs[k] = rs[k][:1]
            if 'strides' in rs:
                rs['strides'] = rs['strides'][:1]
        yield c
    if len(cfg['groups']) > 1:
        for gi in range(len(cfg['groups'])):
            c = copy.deepcopy(run)
            del c['config']['groups'][gi]
            left = {etsim.aurel_name(v) for v in etsim.sim_vars(c['config'])}
            ok = True
            for o in c['ops']:
                if o['op'] == 'join' and o['var'] not in etsim.sim_vars(
                        c['config']):
                    ok = False
                if o['op'] == 'read':
                    o['vars'] = [v for v in o['vars']
                                 if v in left or all(
                                     x in left for x in
                                     etsim.AUREL_TENSORS.get(v, ['?']))]
            if ok:
                yield c
    if any(o.get('twin') for o in run['ops']):
        c = copy.deepcopy(run)
        c['ops'] = [o for o in c['ops'] if not o.get('twin')]
        yield c
    for i, o in enumerate(run['ops']):
        if o.get('fault'):
            c = copy.deepcopy(run); del c['ops'][i]['fault']; yield c
        if o['op'] == 'read':
            if len(o['it']) > 1:
                for j in range(len(o['it'])):
                    c = copy.deepcopy(run); del c['ops'][i]['it'][j]; yield c
            if len(o['vars']) > 1:
                for j in range(len(o['vars'])):
                    c = copy.deepcopy(run); del c['ops'][i]['vars'][j]; yield c


# ---------------------------------------------------------------------------
def execute(run):
    with seams_h5.h5_faults() as plan:
        return _execute(run, plan)


def _execute(run, plan):
    import h5py
    import aurel
    import aurel.reading as rd
    cfg = run['config']
    tr = Trace()
    viol, faults, probes = [], {}, {}
    compared = [0]
    after_fault = False

    def probe(k, n=1):
        probes[k] = probes.get(k, 0) + n

    def fault(k, n=1):
        faults[k] = faults.get(k, 0) + n
        probe(k, n)

    sim = etsim.ETSim(cfg, h5py)
    sim.run_all()
    param = etsim.param_of(cfg)
    outs = sim.outputs
    nres = len(cfg['restarts'])
    simv = etsim.sim_vars(cfg)
    if any(rs['per_proc'] for rs in cfg['restarts']):
        probe('per_proc_layout')
    if any(rs['grouped'] for rs in cfg['restarts']):
        probe('grouped_layout')
        if any(g in ('mythorn-mygroup', 'xthorn-single')
               for g in cfg['groups']):
            probe('unknown_group_scan')
    if any('strides' in rs for rs in cfg['restarts']):
        fault('stride_change')
    if any('phase' in rs for rs in cfg['restarts']):
        fault('phase_offset_outputs')
    if any(rs['numbering'][l] != sorted(rs['numbering'][l])
           for rs in cfg['restarts'] for l in range(len(cfg['levels']))):
        fault('numbering_permuted')
    overlap = any(len(v) > 1 for v in sim.truth.values())
    cat = iosim.Catalogued()
    param2 = None
    if any(o.get('twin') for o in run['ops']):
        cfg2 = copy.deepcopy(cfg)
        cfg2['simpath'] = 'OTHER_ROOT/' + cfg['simpath']
        cfg2['t0'] = cfg.get('t0', 0.0) + 1000.0
        etsim.ETSim(cfg2, h5py).run_all()
        param2 = etsim.param_of(cfg2)
        probe('second_simulation_with_the_same_name')

    with seams_fs.enumeration_order(run['enum']['mode'],
                                    run['enum']['seed']) as order:
        for opi, op in enumerate(run['ops']):
            if viol:
                break
            if op['op'] == 'iterations':
                vis = cat.call(range(nres), op['skip_last'])
                plan.arm(op.get('fault'))
                try:
                    res = aurel.iterations(param, skip_last=op['skip_last'],
                                           verbose=False)
                    tr.event('iterations', keys=sorted(map(str, res)))
                    if plan.disarm() is not None:
                        fault('io_fault_fired')
                        after_fault = True
                except seams_h5.InjectedIOError:
                    plan.disarm()
                    fault('io_fault_fired')
                    probe('io_fault_raise_accepted')
                    after_fault = True
                    tr.event('iterations', outcome='injected')
                except ImportError:
                    plan.disarm()
                    tr.event('iterations', outcome='ImportError')
                    if vis:
                        viol.append({'sig': 'iterations:raised:ImportError',
                                     'op': opi, 'msg': 'iterations() said '
                                     'nothing to process although restarts '
                                     f'{vis} are complete'})
                except Exception as e:  # noqa: BLE001
                    viol.append({
                        'sig': f'iterations:raised:{type(e).__name__}:'
                               f'{iosim.aurel_site(e)}', 'op': opi,
                        'msg': f'op#{opi} iterations(skip_last='
                               f'{op["skip_last"]}) raised '
                               f'{type(e).__name__}: {e}'})
                continue
            if op['op'] == 'join':
                _do_join(sim, cfg, op, opi, rd, viol, probe, compared, tr)
                continue
            if op.get('twin'):
                # the other simulation of the same name is read in between;
                # what it returns is C12's subject, here it only must not
                # disturb the reads of the first one
                try:
                    aurel.read_data(param2, it=list(op['it']),
                                    vars=list(op['vars']), rl=op['rl'],
                                    restart=op['restart'],
                                    split_per_it=bool(op.get('split')),
                                    verbose=False, skip_last=False)
                except Exception:  # noqa: BLE001
                    pass
                tr.event('read_twin', op=op)
                continue
            # ---------------- read --------------------------------------
            rl = op['rl']
            vis = cat.call(range(nres), op['skip_last'])
            if op['skip_last']:
                probe('skip_last_default')
            kwargs = dict(it=list(op['it']), vars=list(op['vars']), rl=rl,
                          restart=op['restart'],
                          split_per_it=bool(op.get('split')),
                          verbose=False, skip_last=op['skip_last'])
            if op.get('split'):
                probe('split_per_it_read')
            before = digest(kwargs)
            comps = iosim.expand_vars(
                simv, op['vars'] or [etsim.aurel_name(v) for v in simv])
            its = sorted(set(op['it']))
            chosen = {}
            absent = []
            earlier_only = []
            if op.get('chk'):
                kwargs['usecheckpoints'] = True
                before = digest(kwargs)
                probe('checkpoint_read')
            for iit in its:
                if op.get('chk'):
                    rs_ok = ([op['restart']] if op['restart'] >= 0 else vis)
                    cand = [r for r in rs_ok if r in vis
                            and iit in sim.checkpoints.get(r, [])]
                    if cand:
                        chosen[iit] = cand[-1]
                    else:
                        absent.append(iit)
                    continue
                if op['restart'] >= 0:
                    cand = [op['restart']] if (
                        op['restart'] in vis
                        and iit in outs[op['restart']].get(rl, [])) else []
                else:
                    cand = [r for r in vis if iit in outs[r].get(rl, [])]
                if cand:
                    chosen[iit] = cand[-1]
                    # is it shadowed by a later interval that lacks it?
                    if op['restart'] < 0:
                        for r in vis:
                            iv = etsim.interval(outs[r])
                            if (r > cand[-1] and iv and iv[0] <= iit <= iv[1]):
                                earlier_only.append(iit)
                else:
                    absent.append(iit)
            other_cls = any(cfg['restarts'][r]['classes'][rl] == 'other'
                            for r in (vis if op['restart'] < 0
                                      else [op['restart']])
                            if r < nres)
            plan.arm(op.get('fault'))
            fired = None
            try:
                got = aurel.read_data(param, **kwargs)
                fired = plan.disarm()
            except Exception as e:  # noqa: BLE001
                fired = plan.disarm()
                name, site = type(e).__name__, iosim.aurel_site(e)
                tr.event('read', op=op, outcome=name, site=site,
                         fired=(fired or {}).get('what'))
                if fired is not None:
                    # the injected error surfaced; this call promises nothing
                    fault('io_fault_fired')
                    probe('io_fault_raise_accepted')
                    after_fault = True
                elif not vis or (op['restart'] >= 0
                               and op['restart'] not in vis):
                    probe('nothing_to_process')
                elif other_cls:
                    probe('kd_raise_accepted')
                elif absent and not chosen:
                    probe('absent_iteration_raise_accepted')
                elif absent and name == 'ValueError' and \
                        site == 'read_ET_group_or_var':
                    probe('absent_iteration_raise_accepted')
                elif earlier_only and name == 'ValueError' and \
                        site == 'read_ET_group_or_var':
                    viol.append({
                        'sig': 'read:raised:ValueError:'
                               'present_only_in_earlier_restart', 'op': opi,
                        'msg': f'op#{opi} read_data({kwargs}) raised although'
                               f' it={earlier_only} is on disk in restart '
                               f'{chosen[earlier_only[0]]}: a later restart\'s'
                               ' [itmin,itmax] contains it without having '
                               f'written it: {e}'})
                elif not comps:
                    probe('no_requested_var_available')
                elif (name == 'KeyError' and site == 'read_ET_data' and len(
                        {cfg['restarts'][r]['grouped']
                         for r in set(chosen.values())}) > 1):
                    # one-variable and one-group files mixed between the
                    # restarts of one simulation: none of the four supported
                    # layouts; raising is the allowed outcome
                    probe('mixed_grouping_raise_accepted')
                else:
                    P = sorted({len(cfg['restarts'][r]['boxes'][rl])
                                for r in set(chosen.values())})
                    viol.append({
                        'sig': f'read{":chk" if op.get("chk") else ""}:raised'
                               f':{name}:{site}', 'op': opi,
                        'msg': f'op#{opi} read_data({kwargs}) raised '
                               f'{name}: {e} [chunks per restart read: {P}, '
                               f'classes: '
                               f'{[cfg["restarts"][r]["classes"][rl] for r in sorted(set(chosen.values()))]}]'})
                continue
            tr.event('read', op=op, result=digest(got))
            if digest(kwargs) != before:
                viol.append({'sig': 'args_mutated:read_data', 'op': opi,
                             'msg': f'op#{opi} read_data changed its '
                                    f'arguments: {kwargs}'})
            if fired is not None:
                # the library carried on after the error (the catalogue skips
                # a restart it cannot read, for this call): what this call
                # lost is C12's subject; every later call is checked in full
                fault('io_fault_fired')
                probe('io_fault_swallowed')
                after_fault = True
                continue
            if after_fault:
                probe('read_after_io_fault_checked')
            if not op['vars']:
                probe('all_vars_read')
            if any(v in etsim.AUREL_TENSORS for v in op['vars']):
                probe('tensor_name_read')
            if op['restart'] >= 0:
                probe('explicit_restart_read')
            if rl > 0:
                probe('level1_read')
            exp_its = [iit for iit in its if iit in chosen]
            got_its = [int(x) for x in got.get('it', [])]
            if got_its != exp_its:
                viol.append({
                    'sig': 'read:it_column', 'op': opi,
                    'msg': f'op#{opi} read_data({kwargs}) returned it='
                           f'{got_its}, on disk (visible restarts {vis}) are '
                           f'{exp_its}'})
                continue
            if comps:
                exp_t = [sim.time_of(iit) for iit in exp_its]
                got_t = [float(x) for x in got.get('t', [])]
                if got_t != exp_t:
                    viol.append({'sig': 'read:t_column', 'op': opi,
                                 'msg': f'op#{opi} t={got_t} expected '
                                        f'{exp_t} for it={exp_its}'})
            for an, ev in comps:
                if an not in got:
                    viol.append({'sig': 'read:missing_var', 'op': opi,
                                 'msg': f'op#{opi} read_data({kwargs}) has '
                                        f'no column {an!r} ({ev}); keys '
                                        f'{sorted(got)}'})
                    continue
                col = got[an]
                if len(col) != len(exp_its):
                    viol.append({'sig': 'read:column_length', 'op': opi,
                                 'msg': f'op#{opi} column {an!r} has '
                                        f'{len(col)} entries for '
                                        f'{len(exp_its)} iterations'})
                    continue
                for n, iit in enumerate(exp_its):
                    r = chosen[iit]
                    exp = sim.truth_array(
                        ev, iit, rl, r,
                        source='chk' if op.get('chk') else '3d')
                    nch = len(cfg['restarts'][r]['boxes'][rl])
                    kind, msg = iosim.diff_kind(col[n], exp, ev, iit, rl, r)
                    compared[0] += 1
                    if op.get('chk'):
                        probe('checkpoint_arrays_compared')
                    if nch > 1:
                        probe('multi_chunk_read')
                    if nch == 2:
                        probe('two_chunks')
                    if nch == 3:
                        probe('three_chunks')
                    if nch >= 10:
                        probe('P_ge_10')
                    if len(sim.truth.get((ev, iit, rl), [])) > 1:
                        fault('overlap_iteration_served')
                    if cfg['restarts'][r]['classes'][rl] == 'other' \
                            and kind is None:
                        probe('kd_exact')
                    if kind is not None:
                        viol.append({
                            'sig': f'read{":chk" if op.get("chk") else ""}'
                                   f':wrong_cells:{kind}', 'op': opi,
                            'msg': f'op#{opi} read_data({kwargs}) var {an!r} '
                                   f'it={iit} (restart {r}, {nch} chunks, '
                                   f'class '
                                   f'{cfg["restarts"][r]["classes"][rl]}, '
                                   f'per_proc='
                                   f'{cfg["restarts"][r]["per_proc"]}): '
                                   + msg})
                        break
                if viol:
                    break
        if order.permuted:
            fault('enum_permuted', order.permuted)
    maxP = max(rs['P'] for rs in cfg['restarts'])
    lay = sorted({(rs['per_proc'], rs['grouped'], rs['xyz'], rs['with_m'],
                   rs['c_single']) for rs in cfg['restarts']})
    state_sig = digest([lay, sorted({len(b) for rs in cfg['restarts']
                                     for b in rs['boxes']}),
                        sorted({c for rs in cfg['restarts']
                                for c in rs['classes']}), nres, overlap,
                        run['enum']['mode'],
                        [o['op'] for o in run['ops']]])
    return {'violations': viol[:4], 'digest': tr.hexdigest(),
            'n_ops': len(run['ops']), 'faults': faults, 'probes': probes,
            'state_sig': state_sig,
            'nontrivial': compared[0] > 0 and (maxP > 1 or nres > 1),
            'logical': {'ops': len(run['ops']),
                        'et_iterations_written': sum(
                            len(v) for o in outs.values() for v in o.values()),
                        'arrays_compared': compared[0]}}


def _do_join(sim, cfg, op, opi, rd, viol, probe, compared, tr):
    import random
    r, rl, it, v = op['restart'], op['rl'], op['it'], op['var']
    rs = cfg['restarts'][r]
    boxes = rs['boxes'][rl]
    full = sim.truth_array(v, it, rl, r)
    order = list(range(len(boxes)))
    random.Random(op['order']).shuffle(order)
    cut = {}
    for n in order:
        b = boxes[n]
        cut[(b[0] + 3 * rl, b[2] + 3 * rl, b[4] + 3 * rl)] = np.transpose(
            full[b[0]:b[1], b[2]:b[3], b[4]:b[5]], (2, 1, 0)).copy()
    probe('join_direct')
    cls = rs['classes'][rl]
    try:
        got = rd.fixij(rd.join_chunks(cut))
    except Exception as e:  # noqa: BLE001
        tr.event('join', op=op, outcome=type(e).__name__)
        if cls == 'other':
            probe('kd_raise_accepted')
        else:
            viol.append({
                'sig': f'join:raised:{type(e).__name__}', 'op': opi,
                'msg': f'op#{opi} join_chunks of {len(boxes)} chunks (class '
                       f'{cls}, insertion order {order}, boxes {boxes}) '
                       f'raised {type(e).__name__}: {e}'})
        return
    tr.event('join', op=op, result=digest(got))
    kind, msg = iosim.diff_kind(got, full, v, it, rl, r)
    compared[0] += 1
    if kind is None and cls == 'other':
        probe('kd_exact')
    if kind is not None:
        viol.append({
            'sig': f'join:wrong_cells:{kind}:'
                   f'{"kd" if cls == "other" else "supported"}', 'op': opi,
            'msg': f'op#{opi} join_chunks of {len(boxes)} chunks (class '
                   f'{cls}, insertion order {order}, boxes {boxes}): ' + msg})
