"""C12 - the per-iteration read cache never changes what read_data returns.

System: one simulated ET run (etsim) + histories of real aurel.read_data
calls with split_per_it in {True, False} starting from an empty cache.
Oracle after every call: (a) returned values == writer's ground truth
(== what an uncached read returns, see C11); (b) AUDIT of every dataset in
every all_iterations/it_<n>.hdf5 - a poisoned cache is reported at the call
that wrote it.  DESIGN.md section 4 / C12.
"""
import copy
import glob as _glob

from .. import etsim, iosim, seams_fs, seams_h5
from ..digest import Trace, digest

PROP = 'C12'
ENGINE = 'etsim+iosim'
HASH_CLASSES = 3
RUNS = {'quick': 1800, 'thorough': 25000}
RUN_TIMEOUT = 90
DETERMINISM_RUNS = 10
RULE = ("Each run = one simulated ET run (1-3 restarts with overlap, 1-2 "
        "levels, supported decompositions, 4 layouts) + a seeded history of "
        "2-8 read_data calls (iteration subsets, tensor names vs component "
        "names, levels, restart=-1|k, split_per_it True/False interleaved), "
        "biased to partially filled caches (one component cached at some "
        "iterations, then the tensor at more). After every call: values vs "
        "ground truth and an audit of every cache dataset. Non-trivial: >=1 "
        "call was served (partly) from a non-empty cache AND >=1 cache "
        "dataset audited. Distinct = distinct (split flag sequence, "
        "vars-kind sequence, #restarts, overlap?, layout).")
PROBES = ['served_from_partial_cache', 'tensor_after_component',
          'component_after_tensor', 'cache_datasets_audited',
          'uncached_after_cached', 'overlap_iteration_served',
          'level1_read', 'explicit_restart_read', 'all_vars_read',
          'cross_restart_read', 'grouped_layout', 'per_proc_layout',
          'enum_permuted', 'deep_level_hierarchy', 'io_fault_fired',
          'io_fault_raise_accepted', 'read_after_failed_read',
          'io_fault:create', 'io_fault:open_r', 'io_fault:open_w',
          'second_simulation_with_the_same_name', 'read_from_checkpoints',
          'reads_while_the_run_is_going_on', 'writer_events_between_reads',
          'single_precision_3d_output']
COMPONENTS = {
    'aurel.reading.read_data/read_ET_data/read_aurel_data/save_data/'
    'read_ET_variables/join_chunks/iterations/get_content': 'real',
    'h5py + tmpfs directory (ET files and all_iterations cache)': 'real',
    'Einstein Toolkit / Carpet writer': 'stub (etsim model, real HDF5 files)',
    'glob/listdir order': 'simulated (seeded permutation)',
    'I/O errors (ENOSPC at create_dataset, EIO/EACCES at open)': 'simulated: '
    'aurel.reading.h5py rebound to a counting proxy that fails the n-th call '
    'of one kind in ~10% of the calls of 30% of the runs; the failed call '
    'may raise, every later call and every cache dataset must be right',
    'set/dict order': 'real, 3 PYTHONHASHSEED classes'}
ASSUMPTIONS = [
    'only variables that exist in the simulation are requested',
    'the writer has finished before the first read (concurrency with the '
    'writer is C18\'s subject)',
    'ground truth == single uncached read is established by C11 on the same '
    'model; C12 additionally performs uncached reads inside its histories']


def generate(rng, tier):
    cfg = etsim.gen_config(rng, decomp_classes=('tensor', 'hier'), max_P=8,
                           max_restarts=3, mixed_grouping_p=0.0, min_its=2,
                           deep_levels_p=0.05)
    gf = rng.child('iofaults')
    io_faults = gf.chance(0.3)
    g = rng.child('ops')
    enum = {'mode': g.pick(['sorted', 'reverse', 'shuffle']),
            'seed': g.randrange(1 << 30)}
    outs = etsim.planned_outputs(cfg)
    nres, nlev = len(cfg['restarts']), len(cfg['levels'])
    avail = [etsim.aurel_name(v) for v in etsim.sim_vars(cfg)]
    tens = [t for t, cs in etsim.AUREL_TENSORS.items()
            if all(c in avail for c in cs)]
    ops = []
    focus_rl = g.randrange(nlev) if g.chance(0.4) else 0
    deep = nlev > 2
    if deep:
        focus_rl = g.pick([1, 10, nlev - 1])
    nops = g.randint(2, 8)
    for k in range(nops):
        rl = focus_rl if g.chance(0.75) else g.randrange(nlev)
        if deep:
            # the interesting pairs are rl = 1 / rl = 10.. (substring!)
            rl = g.pick([1, 10, 10, 1, nlev - 1, 0])
        present = sorted({it for r in outs for it in outs[r].get(rl, [])})
        if not present:
            continue
        it = g.subset(present, 0.15, 0.9, nonempty=True)
        if g.chance(0.25):
            g.shuffle(it)
        r = g.random()
        if tens and r < 0.35:
            t = g.pick(tens)
            vs = [g.pick(etsim.AUREL_TENSORS[t])]       # one component
        elif tens and r < 0.7:
            vs = [g.pick(tens)]                         # the tensor
            if g.chance(0.3):
                vs += g.subset(avail, 0.0, 0.5)
        elif r < 0.78:
            vs = []
        else:
            vs = g.subset(avail, 0.2, 0.8, nonempty=True)
        restart = g.randrange(nres) if g.chance(0.12) else -1
        ops.append({'op': 'read', 'it': it, 'vars': vs, 'rl': rl,
                    'restart': restart, 'split': g.chance(0.8)})
        if io_faults and k < nops - 1 and gf.chance(0.4):
            ops[-1]['fault'] = seams_h5.gen_fault(
                gf, ('create', 'create', 'open_r', 'open_r', 'open_w'),
                max_at=12)
            ops[-1]['fault']['at'] = gf.weighted(
                [(1, 3), (2, 3), (3, 3), (4, 2), (5, 2), (7, 2), (10, 1),
                 (15, 1)])
    if not ops:
        ops = [{'op': 'read', 'it': [0], 'vars': [], 'rl': 0, 'restart': -1,
                'split': True}]
    cfg['io_faults'] = io_faults
    # single-precision 3D output next to double-precision checkpoints, and
    # reads from the checkpoints (usecheckpoints=True) interleaved with the
    # ordinary cached reads of the same variable / iteration / level
    gs = rng.child('chk')
    cfg['single_precision_3d'] = gs.chance(0.25)
    chks = sorted({it for rs in cfg['restarts'] if not rs.get('empty')
                   for it in rs['chk']})
    if chks and gs.chance(0.3):
        out = []
        for o in ops:
            if gs.chance(0.5):
                both = [i for i in o['it'] if i in chks] or [gs.pick(chks)]
                out.append({'op': 'read', 'chk': True, 'it': both,
                            'vars': list(o['vars']) or [gs.pick(avail)],
                            'rl': o['rl'], 'restart': -1,
                            'split': gs.chance(0.7)})
            out.append(o)
        ops = out
    # the run is still going on while it is read: writer events between the
    # reads, which then use skip_last=True (the documented way to look at a
    # running simulation); at the end the writer finishes and the last reads
    # see everything
    gl = rng.child('live')
    if gl.chance(0.2) and len(cfg['restarts']) >= 2:
        nev = len(etsim.ETSim(cfg, None).events)
        out = [{'op': 'writer', 'n': gl.randint(max(1, nev // 3),
                                                max(2, 2 * nev // 3))}]
        for o in ops:
            o = dict(o)
            o.pop('fault', None)
            if o.get('restart', -1) >= 0:
                o['restart'] = -1
            o['skip_last'] = True
            out.append(o)
            if gl.chance(0.5):
                out.append({'op': 'writer', 'n': gl.randint(1, max(
                    1, nev // 3))})
        out.append({'op': 'writer', 'finish': True})
        for o in ops[:gl.randint(1, 3)]:
            o = dict(o)
            o.pop('fault', None)
            o['skip_last'] = False
            out.append(o)
        ops = out
        cfg['live_writer'] = True
    # a second simulation with the SAME name under another root directory,
    # read in the same session (same layout and values, other times)
    gt = rng.child('twin')
    if gt.chance(0.15) and not cfg.get('live_writer'):
        out = []
        for o in ops:
            if gt.chance(0.5):
                t = copy.deepcopy(o)
                t.pop('fault', None)
                t['twin'] = True
                out.append(t)
            out.append(o)
            if gt.chance(0.25):
                t = copy.deepcopy(o)
                t.pop('fault', None)
                t['twin'] = True
                out.append(t)
        ops = out
    return {'config': cfg, 'enum': enum, 'ops': ops}


def fixup(run):
    return run if run['ops'] else None


def simplify(run):
    from . import C11
    for c in C11.simplify(run):
        yield c
    if any(o.get('twin') for o in run['ops']):
        c = copy.deepcopy(run)
        c['ops'] = [o for o in c['ops'] if not o.get('twin')]
        yield c
    for i, o in enumerate(run['ops']):
        if o.get('fault'):
            c = copy.deepcopy(run); del c['ops'][i]['fault']; yield c
            if o['fault']['at'] > 1:
                c = copy.deepcopy(run); c['ops'][i]['fault']['at'] -= 1
                yield c
        if not o.get('split'):
            continue
        if o.get('restart', -1) != -1:
            c = copy.deepcopy(run); c['ops'][i]['restart'] = -1; yield c


def execute(run):
    with seams_h5.h5_faults() as plan:
        return _execute(run, plan)


def _execute(run, plan):
    import h5py
    import aurel
    cfg = run['config']
    tr = Trace()
    viol, faults, probes = [], {}, {}

    def probe(k, n=1):
        probes[k] = probes.get(k, 0) + n

    def fault(k, n=1):
        faults[k] = faults.get(k, 0) + n
        probe(k, n)

    sim = etsim.ETSim(cfg, h5py)
    live = bool(cfg.get('live_writer'))
    if live:
        import os
        os.makedirs(sim.simdir, exist_ok=True)
        probe('reads_while_the_run_is_going_on')
    else:
        sim.run_all()
    cat = iosim.Catalogued()
    param = etsim.param_of(cfg)
    sim2 = param2 = None
    if any(o.get('twin') for o in run['ops']):
        cfg2 = copy.deepcopy(cfg)
        cfg2['simpath'] = 'OTHER_ROOT/' + cfg['simpath']
        cfg2['t0'] = cfg.get('t0', 0.0) + 1000.0
        sim2 = etsim.ETSim(cfg2, h5py)
        sim2.run_all()
        param2 = etsim.param_of(cfg2)
        probe('second_simulation_with_the_same_name')
    nres = len(cfg['restarts'])
    vis = list(range(nres))
    if any(rs['per_proc'] for rs in cfg['restarts']):
        probe('per_proc_layout')
    if any(rs['grouped'] for rs in cfg['restarts']):
        probe('grouped_layout')
    overlap = any(len(v) > 1 for v in sim.truth.values())
    if len(cfg['levels']) > 2:
        probe('deep_level_hierarchy')
    if cfg.get('single_precision_3d'):
        probe('single_precision_3d_output')
    cached = set()      # (restart, aurel comp, it, rl) written by split reads
    compared = audited = 0
    partial = False
    seen_tensor_comp = set()
    seen_comp = set()
    last_split = None
    failed_before = False
    with seams_fs.enumeration_order(run['enum']['mode'],
                                    run['enum']['seed']) as order:
        for opi, op in enumerate(run['ops']):
            if viol:
                break
            if op['op'] == 'writer':
                ev = sim.run_all() if op.get('finish') else sim.step(op['n'])
                fault('writer_events_between_reads', len(ev))
                tr.event('writer', n=len(ev))
                continue
            skip = bool(op.get('skip_last'))
            if live:
                # restarts the catalogue can know: those complete at some
                # earlier call plus, now, all started ones but the last
                vis = cat.call(list(sim.restarts_started), skip)
            kwargs = dict(it=list(op['it']), vars=list(op['vars']),
                          rl=op['rl'], restart=op['restart'],
                          split_per_it=op['split'], verbose=False,
                          skip_last=skip)
            if op.get('chk'):
                kwargs['usecheckpoints'] = True
                probe('read_from_checkpoints')
            before = digest(kwargs)
            if op.get('twin'):
                # the other simulation of the same name: its own truth
                exp2 = iosim.expected_read(sim2, cfg, vis, op)
                try:
                    got2 = aurel.read_data(param2, **kwargs)
                except Exception as e:  # noqa: BLE001
                    tr.event('read_twin', op=op, outcome=type(e).__name__)
                    if not (exp2['absent'] and (not exp2['chosen'] or
                                                type(e).__name__
                                                == 'ValueError')):
                        viol.append({
                            'sig': f'read:twin:raised:{type(e).__name__}',
                            'op': opi,
                            'msg': f'op#{opi} read_data on the second '
                                   f'simulation of the same name raised '
                                   f'{type(e).__name__}: {e}'})
                    continue
                tr.event('read_twin', op=op, result=digest(got2))
                compared += iosim.check_returned(
                    sim2, cfg, op, opi, got2, exp2, viol, tag=':twin')
                audited += iosim.audit_cache(sim2, cfg, h5py, _glob, viol,
                                             opi)
                continue
            exp = iosim.expected_read(sim, cfg, vis, op)
            plan.arm(op.get('fault'))
            fired = None
            try:
                got = aurel.read_data(param, **kwargs)
                fired = plan.disarm()
            except Exception as e:  # noqa: BLE001
                fired = plan.disarm()
                name, site = type(e).__name__, iosim.aurel_site(e)
                tr.event('read', op=op, outcome=name, site=site,
                         fired=(fired or {}).get('what'))
                if fired is not None:
                    # the injected I/O error surfaced: the call promises
                    # nothing, but what it left in the cache is audited and
                    # every later call must still be right
                    fault('io_fault_fired')
                    fault('io_fault:' + fired['kind'])
                    probe('io_fault_raise_accepted')
                    failed_before = True
                    n = iosim.audit_cache(sim, cfg, h5py, _glob, viol, opi)
                    audited += n
                    probe('cache_datasets_audited', n)
                    continue
                if exp['absent'] and (not exp['chosen'] or (
                        name == 'ValueError'
                        and site == 'read_ET_group_or_var')):
                    probe('absent_iteration_raise_accepted')
                    continue
                if live and not vis:
                    probe('nothing_complete_yet_raise_accepted')
                    continue
                viol.append({
                    'sig': f'read:raised:{name}:{site}:'
                           f'{"split" if op["split"] else "nosplit"}',
                    'op': opi,
                    'msg': f'op#{opi} read_data({iosim._fmt(op)}) raised '
                           f'{name}: {e}'})
                break
            tr.event('read', op=op, result=digest(got))
            if failed_before:
                probe('read_after_failed_read')
            if fired is not None:
                # the library carried on after the error (iterations() does):
                # this call and the later ones may have lost data
                fault('io_fault_fired')
                fault('io_fault:' + fired['kind'])
                probe('io_fault_swallowed')
            if digest(kwargs) != before:
                viol.append({'sig': 'args_mutated:read_data', 'op': opi,
                             'msg': f'op#{opi} read_data changed its '
                                    f'arguments in place: now {kwargs}'})
            # probes about the history shape
            keyset = {(exp['chosen'][i], an, i, op['rl'])
                      for an, _ in exp['comps'] for i in exp['exp_its']}
            hit = keyset & cached
            if op['split'] and hit and keyset - cached:
                fault('served_from_partial_cache')
                partial = True
            elif op['split'] and hit:
                partial = True
                probe('served_from_full_cache')
            if not op['split'] and last_split:
                probe('uncached_after_cached')
            is_t = any(v in etsim.AUREL_TENSORS for v in op['vars'])
            comps_now = {an for an, _ in exp['comps']}
            if is_t and comps_now & seen_comp:
                fault('tensor_after_component')
            if (not is_t) and op['vars'] and comps_now & seen_tensor_comp:
                fault('component_after_tensor')
            if op['split']:
                if is_t:
                    seen_tensor_comp |= comps_now
                elif op['vars']:
                    seen_comp |= comps_now
            if not op['vars']:
                probe('all_vars_read')
            if op['rl'] > 0:
                probe('level1_read')
            if op['restart'] >= 0:
                probe('explicit_restart_read')
            if len(set(exp['chosen'].values())) > 1:
                probe('cross_restart_read')
            if any(len(sim.truth.get((ev, i, op['rl']), [])) > 1
                   for _, ev in exp['comps'] for i in exp['exp_its']):
                fault('overlap_iteration_served')
            # only the call in which the error happened may have lost data
            # (iterations() skips a restart it cannot read, for this call);
            # every later call must be exactly right again
            lossy = [] if fired is not None else None
            compared += iosim.check_returned(
                sim, cfg, op, opi, got, exp, viol,
                tag=':split' if op['split'] else ':nosplit', lossy=lossy)
            for what in sorted(set(lossy or [])):
                probe('degraded_in_faulted_call:' + what)
            if op['split'] and not op.get('chk'):
                cached |= keyset
            last_split = op['split']
            if fired is not None:
                failed_before = True
            n = iosim.audit_cache(sim, cfg, h5py, _glob, viol, opi)
            audited += n
            probe('cache_datasets_audited', n)
        if order.permuted:
            fault('enum_permuted', order.permuted)
    lay = sorted({(rs['per_proc'], rs['grouped']) for rs in cfg['restarts']})
    rops = [o for o in run['ops'] if o['op'] == 'read']
    state_sig = digest([[o['split'] for o in rops],
                        [('T' if any(v in etsim.AUREL_TENSORS
                                     for v in o['vars']) else
                          ('A' if not o['vars'] else 'C'))
                         for o in rops], nres, overlap, lay,
                        [o['op'][0] for o in run['ops']]])
    return {'violations': viol[:4], 'digest': tr.hexdigest(),
            'n_ops': len(run['ops']), 'faults': faults, 'probes': probes,
            'state_sig': state_sig,
            'nontrivial': partial and audited > 0,
            'logical': {'ops': len(run['ops']),
                        'et_iterations_written': sum(
                            len(v) for o in sim.outputs.values()
                            for v in o.values()),
                        'arrays_compared': compared,
                        'cache_datasets_audited': audited}}
