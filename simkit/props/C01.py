"""C01 - the lazy cache is transparent (engine: coresim). DESIGN 4 / C01."""
from . import _core_common as cc

PROP = 'C01'
ENGINE = 'coresim'
HASH_CLASSES = 1
RUNS = {'quick': 2000, 'thorough': 30000}
RUN_TIMEOUT = 240
DETERMINISM_RUNS = 8
RULE = ("Each run = one generated spacetime (HOM / ON exact solutions via "
        "refgr, or OFF-shell smooth fields incl. fluid variables and rho0 "
        "with zero regions) presented through a seeded input set (tensors / "
        "components / both, inputs omitted only where the default is true), "
        "frozen via freeze_data or load_data, + seeded cache knobs (period "
        "1..20, memory threshold 1..40 scalars or 4 GB, importance "
        "overrides) + a guard-aware history of 2-24 GET/HELPER/"
        "SET_IMPORTANCE ops, ~7% of the requests with one injected "
        "allocation failure. After every op the value/outcome is compared "
        "with a fresh no-eviction instance asked only that request. "
        "Non-trivial: >=1 eviction fired AND >=1 value compared AND <=30% "
        "vacuous ops. Distinct = distinct (class, variant, knobs, fired "
        "faults, multiset of requested keys).")
PROBES = ['eviction', 'eviction_during_nested_request', 'importance_override',
          'cache_hit_request', 'regular_cleanup_fired',
          'inputs_omitted_defaults_in_play', 'guard_key_cached_computed',
          'alloc_failure_injected', 'alloc_failure:einsum',
          'alloc_failure:call', 'alloc_failure:getitem',
          'partial_results_kept_after_failure',
          'input_supplied_after_its_default_was_computed']
COMPONENTS = cc.COMPONENTS
ASSUMPTIONS = [
    'keys whose evaluation touches st_Ricci_down4 / st_Ricci_down3 / '
    'st_Weyl_down4 (two routes equal only on-shell) are compared only on '
    'exact-solution inputs: HOM rtol 1e-7, ON rtol 3e-5 (truncation), with '
    'an absolute floor tied to the exact curvature scale; all other keys '
    'rtol 1e-9 on every input class',
    'a discrepancy that round-off-level (1e-15) input noise alone '
    'reproduces to 1e-3 is counted as inconclusive, not as a violation',
    'Psi4_lm is requested with center = grid centre, one extraction radius '
    '0.6 x the smallest half-extent and lmax = 2']


warmup = cc.warmup


def generate(rng, tier):
    return cc.generate(rng, tier, 'C01')


fixup = cc.fixup
simplify = cc.simplify


def execute(run):
    return cc.execute(run, 'C01', {'C01'})
