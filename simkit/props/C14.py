"""C14 - over_time equals independent per-step computation (engine: timesim).

System: the real aurel.over_time / process_single_timestep with
aurel.core.AurelCore rebound to the observing subclass for the duration of a
run (time.py looks the class up through the module at call time).  A table of
1-6 steps, each a DIFFERENT generated spacetime slice (a genuine time series:
the same metric spec evaluated at successive times, or independent off-shell
fields), rows in seeded order; the request list (built-in names, custom
functions, estimates built-in and custom) is PARTITIONED over 1-4 successive
over_time calls, each fed the table returned by the previous one; rel_kwargs
carry aggressive cache knobs.  Oracle: harness-side per-step recomputation on
fresh instances.  DESIGN.md section 4 / C14.
"""
import copy

import numpy as np

from .. import compare, coresim
from ..digest import Trace, digest
from . import _core_common as cc

PROP = 'C14'
ENGINE = 'timesim'
HASH_CLASSES = 1
RUNS = {'quick': 1600, 'thorough': 20000}
RUN_TIMEOUT = 300
DETERMINISM_RUNS = 8
RULE = ("Each run = table of 1-6 distinct time steps (HOM exact-solution "
        "time series or independent OFF-shell slices; tensor or component "
        "columns; temporal key it/iteration/t/time, sometimes two; seeded "
        "row order) x request list (2-7 vars: built-in, custom functions "
        "incl. one using a custom AurelCore attribute and one non-scalar; "
        "1-4 estimates built-in/custom) x a partition of the requests over "
        "1-4 successive over_time calls (the last call carries all "
        "estimates) x rel_kwargs (Lambda, tetrad, cache knobs period 1..20 / "
        "tiny memory threshold). Non-trivial: >=2 steps AND (>=2 calls OR "
        "rows not already sorted). Distinct = distinct (#steps, row order "
        "sorted?, temporal keys, #calls, var kinds, estimate kinds, knobs).")
PROBES = ['rows_unsorted', 'multi_call_partition', 'custom_var',
          'custom_estimate', 'custom_attribute_used', 'two_temporal_keys',
          'eviction_inside_over_time', 'single_step', 'nonscalar_custom',
          'estimates_only_call', 'repeated_request', 'tensor_input_columns',
          'frozen_checked_instances', 'mixed_type_temporal_column',
          'several_customs_in_one_dict', 'unknown_names_skipped',
          'custom_shadows_builtin', 'call_failed_midway_then_retried',
          'failed_in_custom_var', 'failed_in_custom_estimate',
          'custom_estimate_named_like_builtin', 'sentinel_call_checked',
          'big_endian_input_columns']
COMPONENTS = dict(cc.COMPONENTS)
COMPONENTS['aurel.time.over_time / process_single_timestep / validate_*'] = \
    'real'
COMPONENTS['AurelCore instances created inside over_time'] = (
    'real, class rebound to the observing subclass for the run')
ASSUMPTIONS = [
    'a split of the requests is a sequence of calls whose LAST call carries '
    'the full estimate list (earlier calls may carry subsets), which is how '
    'sequential use is documented to work; under that protocol the final '
    'table must equal the single-call table',
    'physical-branch keys (st_Weyl_down4, st_RicciS, ...) are requested only '
    'on exact-solution (HOM) series',
    'estimate columns are compared exactly with the estimator applied to the '
    'returned 3D array; variable columns with C01\'s tolerances against a '
    'fresh per-step instance']

CUSTOM_VARS = {
    'K2': lambda rel: rel['Ktrace'] ** 2,
    'detscale': lambda rel: rel['gammadet'] * rel.myscale,
    'alpha_p1': lambda rel: rel['alpha'] + 1.0,
    'gup_xx': lambda rel: rel['gammaup3'][0, 0] * 1.0,
    'beta2': lambda rel: rel['betaup3'] * 2.0,          # non-scalar
    # a custom variable that carries the NAME of a built-in quantity with a
    # default assumption: it must override the default for every built-in
    # computed in the same or a later call
    'press': lambda rel: 0.05 * rel['gammadet'] + 0.01,
}
SHADOWING = ('press',)
CUSTOM_EST = {
    'p90': lambda a: np.percentile(a, 90),
    'range': lambda a: np.max(a) - np.min(a),
    'corner': lambda a: a[-1, 0, -1],
    # a user-defined estimator that carries the name of a predefined one
    'mean': lambda a: np.sum(a * np.abs(a)) / (np.sum(np.abs(a)) + 1.0),
}
# the predefined estimators, written down independently of aurel.time
EST_REF = {
    'max': np.max, 'mean': np.mean, 'min': np.min, 'std': np.std,
    'median': lambda a: np.percentile(a, 50),
    'maxabs': lambda a: np.max(np.abs(a)),
    'x0y0z0': lambda a: a[0, 0, 0], 'x1y1z1': lambda a: a[-1, -1, -1],
    'sum': np.sum, 'var': np.var,
    'quartile1': lambda a: np.percentile(a, 25),
    'quartile3': lambda a: np.percentile(a, 75),
    'minabs': lambda a: np.min(np.abs(a)),
    'meanabs': lambda a: np.mean(np.abs(a)),
}


class InjectedFault(RuntimeError):
    """Raised by a user function of the harness at a seeded invocation."""

ALG_VARS = ['enthalpy', 'Ttrace', 'rho_n',
            'Ktrace', 'gammadet', 'A2', 's_RicciS', 'Hamiltonian', 'gdet',
            'rho_n', 'Kup3', 'betamag', 'psi_bssnok', 'Momentumx', 'gtt',
            'press_n', 'dtKtrace', 'Hamiltonian_norm', 'gammaup3',
            's_Gamma_udd3']
PHYS_VARS = ['st_RicciS', 'st_Weyl_down4', 'Kretschmann', 'eweyl_u_down4',
             'st_Riemann_down4', 'st_Weyl_down4', 'st_Riemann_down4']
EST = ['max', 'mean', 'min', 'median', 'maxabs', 'x0y0z0', 'x1y1z1', 'std']


warmup = cc.warmup


def generate(rng, tier):
    g = rng.child('c14')
    cfg = coresim.gen_config(rng, 'C14')
    cfg['period'] = g.pick([1, 1, 2, 3, 20])
    cfg['mem_scalars'] = g.pick([3, 10, 40, None])
    nsteps = g.weighted([(1, 1), (2, 3), (3, 3), (4, 2), (5, 1), (6, 1)])
    tkeys = [g.pick(['it', 'iteration', 't', 'time'])]
    if g.chance(0.3):
        tkeys.append(g.pick([k for k in ['it', 'iteration', 't', 'time']
                             if k not in tkeys]))
    order = g.perm(nsteps) if g.chance(0.7) else list(range(nsteps))
    pool = ALG_VARS + (PHYS_VARS if cfg['cls'] == 'HOM' else [])
    nv = g.randint(2, 7)
    vars_ = []
    for _ in range(nv):
        r = g.random()
        if r < 0.3:
            vars_.append({'custom': g.pick(sorted(CUSTOM_VARS))})
        else:
            vars_.append({'name': g.pick(pool)})
    seen, uniq = set(), []
    for v in vars_:
        k = v.get('name') or v.get('custom')
        if k not in seen and k not in SHADOWING:
            seen.add(k)
            uniq.append(v)
    vars_ = uniq
    shadow = (g.chance(0.25) and cfg['cls'] == 'OFF'
              and 'press' not in cfg.get('fluid', [])
              and 'Tdown4' not in cfg.get('extra_inputs', []))
    ests = []
    for _ in range(g.randint(1, 4)):
        ests.append({'custom': g.pick(sorted(CUSTOM_EST))} if g.chance(0.3)
                    else {'name': g.pick(EST)})
    seen, uniq = set(), []
    for e in ests:
        k = e.get('name') or e.get('custom')
        if k not in seen:
            seen.add(k)
            uniq.append(e)
    ests = uniq
    if any(e.get('custom') == 'mean' for e in ests):
        ests = [e for e in ests if e.get('name') != 'mean']
    ncalls = g.weighted([(1, 3), (2, 4), (3, 2), (4, 1)])
    ncalls = max(1, min(ncalls, len(vars_) + 1))
    cuts = sorted(g.sample(range(1, len(vars_)), min(ncalls - 1,
                                                      len(vars_) - 1))) \
        if len(vars_) > 1 and ncalls > 1 else []
    if shadow:
        # anywhere in the FIRST call (custom variables are defined before any
        # built-in of that call is computed, whatever the order in the list);
        # not in a later call, where earlier built-ins would already have
        # been computed with the default pressure
        pos = g.randint(0, cuts[0] if cuts else len(vars_))
        vars_.insert(pos, {'custom': 'press'})
        cuts = [c + 1 for c in cuts]
    groups, prev = [], 0
    for c in cuts + [len(vars_)]:
        groups.append(list(range(prev, c)))
        prev = c
    calls = []
    for gi, grp in enumerate(groups):
        vs = list(grp)
        if g.chance(0.25) and gi > 0:
            rep_ = g.pick(groups[gi - 1])             # repeated request,
            vs = ([rep_] + vs) if g.chance(0.5) else (vs + [rep_])  # 1st/last
        calls.append({'vars': vs, 'ests': sorted(
            g.sample(range(len(ests)), g.randint(0, len(ests))))})
    if g.chance(0.3):
        calls.append({'vars': [], 'ests': list(range(len(ests)))})
    calls[-1]['ests'] = list(range(len(ests)))
    # fault: one call fails midway (a user function raises at its n-th
    # invocation), the caller looks at its table and runs the call again
    gf = rng.child('c14faults')
    fail = None
    if gf.chance(0.3):
        cands = []
        for ci, call in enumerate(calls):
            if any('custom' in vars_[vi] and vars_[vi]['custom'] != 'press'
                   for vi in call['vars']):
                cands.append((ci, 'var'))
            if any('custom' in ests[ei] for ei in call['ests']):
                cands.append((ci, 'est'))
        if cands:
            ci, what = gf.pick(cands)
            fail = {'call': ci, 'what': what,
                    'at': gf.weighted([(1, 1), (2, 3), (3, 3), (4, 2), (6, 2),
                                       (9, 1)])}
    return {'config': cfg, 'ops': calls, 'nsteps': nsteps, 'tkeys': tkeys,
            'order': order, 'vars': vars_, 'ests': ests, 'fail': fail,
            'big_endian': gf.chance(0.12), 'sentinel': gf.chance(0.5),
            'dt': g.pick([0.25, 0.5, 1.0]),
            'myscale': g.pick([2.5, -1.0, 0.5]),
            # the earliest time value is given as a Python int (mixed-type
            # temporal column), several custom variables share one dict
            't_int_first': g.chance(0.3), 'merge_custom': g.chance(0.4),
            'bogus_names': g.chance(0.15)}


def fixup(run):
    if not run['ops']:
        return None
    run = copy.deepcopy(run)
    run['ops'][-1]['ests'] = list(range(len(run['ests'])))
    if run.get('fail') and run['fail']['call'] >= len(run['ops']):
        run['fail'] = None
    return run


def simplify(run):
    if run['nsteps'] > 1:
        c = copy.deepcopy(run)
        c['nsteps'] -= 1
        c['order'] = [o for o in c['order'] if o < c['nsteps']]
        yield c
    if run['order'] != sorted(run['order']):
        c = copy.deepcopy(run); c['order'] = sorted(c['order']); yield c
    if len(run['tkeys']) > 1:
        c = copy.deepcopy(run); c['tkeys'] = c['tkeys'][:1]; yield c
    for flag in ('t_int_first', 'merge_custom', 'bogus_names', 'big_endian',
                 'sentinel'):
        if run.get(flag):
            c = copy.deepcopy(run); c[flag] = False; yield c
    if run.get('fail'):
        c = copy.deepcopy(run); c['fail'] = None; yield c
    for i in range(len(run['ests'])):
        if len(run['ests']) > 1:
            c = copy.deepcopy(run)
            del c['ests'][i]
            for call in c['ops']:
                call['ests'] = sorted({(e if e < i else e - 1)
                                       for e in call['ests'] if e != i})
            yield c
    for i in range(len(run['vars'])):
        if len(run['vars']) > 1:
            c = copy.deepcopy(run)
            del c['vars'][i]
            for call in c['ops']:
                call['vars'] = [(v if v < i else v - 1)
                                for v in call['vars'] if v != i]
            yield c
    for c in cc.simplify(run):
        yield c


# ---------------------------------------------------------------------------
def _step_world(run, k):
    cfg = copy.deepcopy(run['config'])
    if cfg['cls'] == 'OFF':
        cfg['spec']['npseed'] = cfg['spec']['npseed'] + 7919 * k
    else:
        cfg['spec']['t0'] = cfg['spec']['t0'] + run['dt'] * k
    return coresim.World(cfg)


def _vname(v):
    return v.get('name') or v.get('custom')


def _fresh(run, world):
    """Fresh no-eviction instance for one step, as over_time presents it to a
    built-in: inputs + custom attribute + the shadowing custom variables."""
    rel, _ = world.make(knobs=False)
    rel.myscale = run['myscale']
    for v in run['vars']:
        if v.get('custom') in SHADOWING:
            rel.data[v['custom']] = CUSTOM_VARS[v['custom']](rel)
            rel.var_importance[v['custom']] = 0
    return rel


def execute(run):
    import aurel
    import aurel.core as core
    cfg = run['config']
    tr = Trace()
    viol, faults, probes = [], {}, {}

    def probe(k, n=1):
        probes[k] = probes.get(k, 0) + n

    def fault(k, n=1):
        faults[k] = faults.get(k, 0) + n
        probe(k, n)

    def bad(sig, msg, opi):
        viol.append({'sig': sig, 'op': opi, 'msg': msg})

    n = run['nsteps']
    worlds = [_step_world(run, k) for k in range(n)]
    # ---- the input table, rows in seeded order ----------------------------
    order = [o for o in run['order'] if o < n] or list(range(n))
    tval = {'it': lambda k: 10 * k + 3, 'iteration': lambda k: 4 * k,
            't': lambda k: 0.5 + 0.25 * k, 'time': lambda k: 1.0 + 0.125 * k}
    if run.get('t_int_first'):
        tval['t'] = lambda k: 0 if k == 0 else 0.5 + 0.25 * k
        tval['time'] = lambda k: 1 if k == 0 else 1.0 + 0.125 * k
        if any(t in run['tkeys'] for t in ('t', 'time')):
            probe('mixed_type_temporal_column')
    table = {tk: [tval[tk](k) for k in order] for tk in run['tkeys']}
    for key in sorted(worlds[0].data):
        table[key] = [np.array(worlds[k].data[key]) for k in order]
        if run.get('big_endian'):
            # arrays as they come out of big-endian files: same values,
            # non-native byte order
            table[key] = [a.astype(a.dtype.newbyteorder('>'))
                          for a in table[key]]
    if run.get('big_endian'):
        probe('big_endian_input_columns')
    if order != sorted(order):
        fault('rows_unsorted')
    if len(run['tkeys']) > 1:
        probe('two_temporal_keys')
    if n == 1:
        probe('single_step')
    if any(np.ndim(v[0]) > 3 for v in table.values()):
        probe('tensor_input_columns')
    # aurel picks the LAST of it/iteration/t/time that is present
    tkey = [t for t in ['it', 'iteration', 't', 'time'] if t in table][-1]
    reg = coresim.Registry(readonly=True)
    for key, col in table.items():
        for i, a in enumerate(col):
            if isinstance(a, np.ndarray):
                reg.add(f'input column {key!r} row {i}', a)
    fd = aurel.FiniteDifference(cfg['param'], boundary=cfg['boundary'],
                                fd_order=cfg['fd_order'], verbose=False)
    kw = dict(Lambda=cfg['Lambda'], tetrad=cfg['tetrad'],
              clear_cache_every_nbr_calc=cfg['period'],
              myscale=run['myscale'])
    if cfg['mem_scalars'] is not None:
        sb = cfg['param']['Nx'] * cfg['param']['Ny'] * cfg['param']['Nz'] * 8
        kw['memory_threshold_inGB'] = cfg['mem_scalars'] * sb / 2 ** 30

    # ---- rebinding seam: observe every instance over_time creates --------
    Mon = coresim.monitored_class()
    created = []

    class Spy(Mon):
        def __init__(self, fd_, **k):
            super().__init__(fd_, **k)
            created.append(self)
    old_cls = core.AurelCore
    core.AurelCore = Spy
    data = table
    ncalls_done = 0
    try:
        for ci, call in enumerate(run['ops']):
            if viol:
                break
            vlist = []
            for vi in call['vars']:
                v = run['vars'][vi]
                if 'name' in v:
                    vlist.append(v['name'])
                else:
                    if (run.get('merge_custom') and vlist
                            and isinstance(vlist[-1], dict)):
                        vlist[-1][v['custom']] = CUSTOM_VARS[v['custom']]
                        probe('several_customs_in_one_dict')
                    else:
                        vlist.append({v['custom']: CUSTOM_VARS[v['custom']]})
                    probe('custom_var')
                    if v['custom'] in SHADOWING:
                        probe('custom_shadows_builtin')
                    if v['custom'] == 'detscale':
                        probe('custom_attribute_used')
                    if v['custom'] == 'beta2':
                        probe('nonscalar_custom')
            elist = []
            for ei in call['ests']:
                e = run['ests'][ei]
                if 'name' in e:
                    elist.append(e['name'])
                else:
                    elist.append({e['custom']: CUSTOM_EST[e['custom']]})
                    probe('custom_estimate')
                    if e['custom'] in EST_REF:
                        probe('custom_estimate_named_like_builtin')
            if run.get('bogus_names') and ci == 0:
                # unknown names are documented to be reported and skipped
                vlist = ['not_a_variable'] + vlist
                elist = elist + ['not_an_estimate']
                probe('unknown_names_skipped')
            if not vlist and elist:
                probe('estimates_only_call')
            if any(_vname(run['vars'][vi]) in data for vi in call['vars']):
                probe('repeated_request')
            before = (digest([x if isinstance(x, str) else sorted(x)
                              for x in vlist]),
                      digest([x if isinstance(x, str) else sorted(x)
                              for x in elist]), sorted(data.keys()),
                      len(vlist), len(elist))
            din = data
            fail = run.get('fail') if (run.get('fail') or {}).get(
                'call') == ci else None
            if fail:
                # the same request, but one user function raises at its n-th
                # invocation; afterwards the caller's table must be as it was
                # and the call is simply run again
                fv, fe = _with_failure(vlist, elist, fail)
                din_digest = {k: digest(np.asarray(v)) if not isinstance(
                    v, list) else digest(v) for k, v in din.items()}
                try:
                    aurel.over_time(din, fd, vars=fv, estimates=fe,
                                    verbose=False, **kw)
                    probe('failure_not_reached')
                except InjectedFault:
                    fault('call_failed_midway_then_retried')
                    fault('failed_in_custom_' + ('var' if fail['what'] == 'var'
                                                 else 'estimate'))
                    now = {k: digest(np.asarray(v)) if not isinstance(
                        v, list) else digest(v) for k, v in din.items()}
                    if now != din_digest:
                        chg = sorted(k for k in set(now) | set(din_digest)
                                     if now.get(k) != din_digest.get(k))
                        bad('args_mutated:over_time:after_failed_call',
                            f'call#{ci} over_time failed midway (a user '
                            f'function raised) and left the caller\'s table '
                            f'changed in {chg[:6]}', ci)
                        break
                except Exception as e:  # noqa: BLE001
                    site, line = coresim.exc_site(e)
                    if 'read-only' in str(e):
                        bad(f'mutation:write_in:{site}',
                            f'call#{ci} over_time wrote in place into an '
                            f'input array at {site}: `{line}`', ci)
                        break
                    bad(f'over_time:raised:{type(e).__name__}:{site}',
                        f'call#{ci} over_time raised {type(e).__name__}: {e} '
                        f'at {site} `{line}` (a user function was about to '
                        f'fail at invocation {fail["at"]})', ci)
                    break
                tr.event('failed_call', ci=ci)
            try:
                data = aurel.over_time(din, fd, vars=vlist, estimates=elist,
                                       verbose=False, **kw)
            except Exception as e:  # noqa: BLE001
                site, line = coresim.exc_site(e)
                if 'read-only' in str(e):
                    bad(f'mutation:write_in:{site}',
                        f'call#{ci} over_time wrote in place into an input '
                        f'array at {site}: `{line}`', ci)
                else:
                    bad(f'over_time:raised:{type(e).__name__}:{site}',
                        f'call#{ci} over_time(vars={call["vars"]}, ests='
                        f'{call["ests"]}) raised {type(e).__name__}: {e} at '
                        f'{site} `{line}`', ci)
                break
            ncalls_done += 1
            tr.event('call', call=call, keys=sorted(data.keys()),
                     res=digest({k: np.asarray(v) for k, v in data.items()}))
            after = (digest([x if isinstance(x, str) else sorted(x)
                             for x in vlist]),
                     digest([x if isinstance(x, str) else sorted(x)
                             for x in elist]), sorted(din.keys()),
                     len(vlist), len(elist))
            if after != before:
                bad('args_mutated:over_time', f'call#{ci} over_time changed '
                    'its vars/estimates/data arguments in place', ci)
            for nm, _ in reg.changed():
                bad('mutation:changed:input_column', f'call#{ci} over_time '
                    f'changed {nm} in place', ci)
        if not viol and run.get('sentinel'):
            # an ordinary call on another small table afterwards: whatever the
            # earlier calls (incl. the failed one) left behind in the process
            # must not show
            _sentinel(aurel, fd, worlds[0], kw, bad, probe, len(run['ops']))
    finally:
        core.AurelCore = old_cls
    if ncalls_done > 1:
        fault('multi_call_partition')
    # ---- C03 tie: frozen entries inside every instance --------------------
    nev = 0
    for inst in created:
        m = inst._m
        nev += len(m['evicted'])
        frozen = [k for k, w_ in inst.var_importance.items()
                  if w_ == 0 and k in (set(worlds[0].data) | set(
                      CUSTOM_VARS) | set(run['tkeys']))]
        for k in frozen:
            if k in m['evicted']:
                bad(f'frozen_evicted:{k}', f'inside over_time: frozen entry '
                    f'{k!r} was evicted', len(run['ops']))
        if m['bookkeeping'] or m['cleanup_error'] or m['getsize_excess']:
            bad('cleanup_bookkeeping', 'inside over_time: '
                f'{m["bookkeeping"] or m["cleanup_error"] or m["getsize_excess"]}',
                len(run['ops']))
    probe('frozen_checked_instances', len(created))
    if nev:
        fault('eviction_inside_over_time', nev)
    # ---- oracle: expected final table --------------------------------------
    compared = 0
    if not viol:
        compared = _check_table(run, cfg, worlds, order, tkey, tval, data,
                                bad, tr)
    nvk = sorted({('C' if 'custom' in v else 'B') for v in run['vars']})
    nek = sorted({('C' if 'custom' in e else 'B') for e in run['ests']})
    state_sig = digest([n, order == sorted(order), run['tkeys'],
                        len(run['ops']), nvk, nek, cfg['period'],
                        cfg['mem_scalars'], cfg['cls'],
                        sorted(_vname(v) for v in run['vars'])])
    return {'violations': viol[:4], 'digest': tr.hexdigest(),
            'n_ops': len(run['ops']), 'faults': faults, 'probes': probes,
            'state_sig': state_sig,
            'nontrivial': compared > 0 and n >= 2 and (
                ncalls_done >= 2 or order != sorted(order)),
            'logical': {'ops': len(run['ops']), 'steps': n,
                        'values_compared': compared,
                        'calc_ticks': sum(i.calculation_count
                                          for i in created)}}


def _with_failure(vlist, elist, fail):
    """Copies of the request lists in which the first custom variable (or
    estimator) raises InjectedFault at its n-th invocation."""
    count = [0]

    def wrap(fn):
        def flaky(x):
            count[0] += 1
            if count[0] == fail['at']:
                raise InjectedFault(f'user function failed at invocation '
                                    f'{count[0]}')
            return fn(x)
        return flaky
    done = [False]

    def conv(lst, shadow_ok):
        out = []
        for item in lst:
            if isinstance(item, dict) and not done[0]:
                d = {}
                for k, fn in item.items():
                    if not done[0] and (shadow_ok or k not in SHADOWING):
                        d[k] = wrap(fn)
                        done[0] = True
                    else:
                        d[k] = fn
                out.append(d)
            else:
                out.append(item)
        return out
    if fail['what'] == 'var':
        return conv(vlist, False), list(elist)
    return list(vlist), conv(elist, True)


def _sentinel(aurel, fd, world, kw, bad, probe, opi):
    """An ordinary call on another table, with DEFAULT AurelCore options
    (nothing of the history's rel_kwargs is passed): predefined estimators
    and a Lambda-dependent built-in on full inputs."""
    names = ['mean', 'max', 'min', 'median', 'std', 'maxabs', 'x0y0z0']
    key = sorted(k for k in world.data if np.ndim(world.data[k]) == 3)
    if not key:
        return
    key = key[0]
    tab = {'it': [0, 1]}
    for k in sorted(world.data):
        a0 = np.array(world.data[k])
        tab[k] = [a0, a0 + (0.01 if k == key else 0.0)]
    try:
        out = aurel.over_time(tab, fd, vars=['rho_n_fromHam'],
                              estimates=list(names), verbose=False)
    except Exception as e:  # noqa: BLE001
        bad(f'sentinel:raised:{type(e).__name__}', 'an ordinary over_time '
            f'call after the history raised {type(e).__name__}: {e}', opi)
        return
    probe('sentinel_call_checked')
    for en in names:
        for r in range(2):
            want = EST_REF[en](np.asarray(tab[key][r]))
            got = out.get(f'{key}_{en}', [None, None])[r]
            if got is None or not np.array_equal(np.asarray(got),
                                                 np.asarray(want),
                                                 equal_nan=True):
                bad(f'sentinel:estimate:{en}', f'an ordinary over_time call '
                    f'on another table after the history: {key}_{en} row {r} '
                    f'= {got!r}, {en}() of the array = {want!r}', opi)
                return
    # the built-in, against an object with default options on the same data
    import aurel.core as core
    for r in range(2):
        ref = core.AurelCore(fd, verbose=False)
        for k in sorted(world.data):
            ref.data[k] = np.array(tab[k][r])
        ref.freeze_data()
        want = ref['rho_n_fromHam']
        d = compare.differ(np.asarray(out['rho_n_fromHam'][r]), want, 1e-9,
                           1e-12 * max(1.0, 1.0 / world.h ** 2))
        if d is not None:
            bad('sentinel:value:rho_n_fromHam', 'an ordinary over_time call '
                'with default options after the history: rho_n_fromHam row '
                f'{r} differs from an object with default options: {d[1]}',
                opi)
            return


def _check_table(run, cfg, worlds, order, tkey, tval, data, bad, tr):
    n = run['nsteps']
    last = len(run['ops'])
    srt = sorted(order, key=lambda k: tval[tkey](k))
    requested = []
    for call in run['ops']:
        for vi in call['vars']:
            if vi not in requested:
                requested.append(vi)
    # expected keys
    exp_keys = set(run['tkeys']) | set(worlds[0].data)
    vnames = [_vname(run['vars'][vi]) for vi in requested]
    exp_keys |= set(vnames)
    # per-step fresh values
    fresh_cols = {}
    for vi in requested:
        v = run['vars'][vi]
        nm = _vname(v)
        col = []
        for k in srt:
            rel = _fresh(run, worlds[k])
            if 'name' in v:
                col.append(rel[v['name']])
            elif v['custom'] in SHADOWING:
                col.append(rel.data[v['custom']])
            else:
                col.append(CUSTOM_VARS[v['custom']](rel))
        fresh_cols[nm] = col
    scalar_keys = [k for k in sorted(set(worlds[0].data) | set(vnames))
                   if np.ndim((fresh_cols.get(k) or [worlds[0].data.get(k)])
                              [0]) == 3]
    enames = [(e.get('name') or e.get('custom')) for e in run['ests']]
    for sk in scalar_keys:
        for en in enames:
            exp_keys.add(f'{sk}_{en}')
    got_keys = set(data.keys())
    if got_keys != exp_keys:
        bad('table_keys', f'final table keys differ from the single-call '
            f'table: missing {sorted(exp_keys - got_keys)[:8]}, unexpected '
            f'{sorted(got_keys - exp_keys)[:8]}', last)
        return 0
    # row order + input preservation
    for tk in run['tkeys']:
        want = [tval[tk](k) for k in srt]
        if [float(x) for x in data[tk]] != [float(x) for x in want]:
            bad('row_order', f'column {tk!r} = {list(data[tk])}, expected '
                f'{want} (rows sorted by {tkey!r})', last)
            return 0
    for key in sorted(worlds[0].data):
        for r, k in enumerate(srt):
            got_ = np.asarray(data[key][r])
            got_ = got_.astype(got_.dtype.newbyteorder('='))   # by value
            if digest(got_) != digest(
                    np.asarray(worlds[k].data[key])):     # NaN-safe, bytewise
                bad('input_column_not_preserved', f'input column {key!r} '
                    f'row {r} does not hold step {k}\'s input', last)
                return 0
    compared = 0
    eng = coresim.Engine({'config': cfg, 'ops': []})
    for vi in requested:
        v = run['vars'][vi]
        nm = _vname(v)
        for r, k in enumerate(srt):
            touched = set()
            if 'name' in v:
                rel = _fresh(run, worlds[k])
                rel[v['name']]
                touched = rel._m['touched']
            tol = eng.tolerances(set(touched), nm)
            if tol is None:
                continue
            d = compare.differ(np.asarray(data[nm][r]), fresh_cols[nm][r],
                               tol[0], tol[1])
            compared += 1
            if d is not None:
                # which step does it look like?
                src = [kk for kk in range(n) if kk != k and compare.differ(
                    np.asarray(data[nm][r]), fresh_cols[nm][srt.index(kk)],
                    tol[0], tol[1]) is None]
                bad(f'step_value:{nm}' + (':other_step' if src else ''),
                    f'variable {nm!r} at row {r} (step {k}) differs from a '
                    f'fresh per-step computation: {d[1]}'
                    + (f'; it equals step {src[0]}\'s value' if src else ''),
                    last)
                return compared
    for sk in scalar_keys:
        for e in run['ests']:
            en = e.get('name') or e.get('custom')
            fn = EST_REF[en] if 'name' in e else CUSTOM_EST[en]
            if 'custom' in e and en in EST_REF:
                tr.event('custom_est_named_like_builtin')
            for r in range(len(srt)):
                want = fn(np.asarray(data[sk][r]))
                got = data[f'{sk}_{en}'][r]
                compared += 1
                if not np.array_equal(np.asarray(got), np.asarray(want),
                                      equal_nan=True):
                    bad(f'estimate:{en}', f'{sk}_{en} row {r} = {got!r} but '
                        f'{en}({sk} row {r}) = {want!r}', last)
                    return compared
    return compared
