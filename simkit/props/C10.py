"""C10 - Weyl tensor, E/B parts, scalars and invariants (engine: coresim).

The simulation target is "the two constructions agree ... in both cache
states": which construction of st_Weyl_down4 runs is decided by whether
st_Riemann_down4 is in the cache at that moment.  A seeded history prefix
puts the cache into one of the reachable states (nothing cached; Riemann
cached; Riemann cached then evicted; Weyl cached before Riemann; E/B first;
random), under the C01 knob swarm; then the algebraic clauses are evaluated
as invariants on that state against the independent reference (refgr).
DESIGN.md section 4 / C10.
"""
import copy

import numpy as np

from .. import coresim, refgr, spacetimes as st
from . import _core_common as cc

PROP = 'C10'
ENGINE = 'coresim'
HASH_CLASSES = 1
RUNS = {'quick': 1200, 'thorough': 12000}
RUN_TIMEOUT = 400
DETERMINISM_RUNS = 6
RULE = ("Each run = one exact-solution spacetime (HOM, ON long-wavelength "
        "order 6/8, or vacuum Kasner; non-unit lapse, non-zero shift, "
        "non-vacuum unless Kasner) + tetrad choice + vacuum flag consistent "
        "with T + cache knobs + a history prefix that selects the cache "
        "state, followed by the C10 invariants evaluated on that instance "
        "in seeded order: Weyl vs exact, other-branch agreement, Riemann "
        "unchanged, trace-free + symmetries, E/B symmetric/trace-free/equal "
        "to normal-frame contractions, E_u/B_u, tetrad orthonormality, Psi "
        "= contractions with the returned null tetrad, I and J independent "
        "of the orthonormal tetrad. Non-trivial: Weyl was compared in a "
        "state where the history had touched st_Riemann_down4 or evicted "
        "something. Distinct = distinct (class, variant, tetrad, vacuum, "
        "prefix pattern, branch taken, knobs).")
PROBES = ['weyl_branch_from_riemann', 'weyl_branch_from_EB',
          'riemann_cached_then_evicted', 'weyl_cached_before_riemann',
          'vacuum_flag_true', 'tetrad_other', 'tetrad_qk', 'eviction',
          'invariants_two_tetrads', 'psi_recomputed', 'other_branch_compared',
          'riemann_unchanged_checked']
COMPONENTS = cc.COMPONENTS
ASSUMPTIONS = [
    'tolerances: HOM/Kasner rtol 1e-7, ON rtol 3e-5 (measured truncation '
    '1e-8..1e-7 at order 8/6 with k h <= 0.06), floors tied to the exact '
    'curvature scale S (S^p for quantities of order p in the curvature)',
    'the algebraic clauses are pure in the input; they are evaluated on '
    'every cache state the histories reach over the stated family of '
    'generated spacetimes and add no claim beyond that family',
    'quasi-Kinnersley triad orthonormality is checked away from the polar '
    'axis (x^2+y^2 > (2 max(dx,dy))^2)']

PREFIXES = ['none', 'riemann', 'riemann_evicted', 'weyl_then_riemann',
            'eb_first', 'kretschmann', 'random', 'faulted', 'faulted',
            'faulted', 'psi4lm_first', 'other_object']
POST = ['weyl', 'symmetries', 'eb_n', 'eb_u', 'tetrad', 'psi', 'invariants']


warmup = cc.warmup


def generate(rng, tier):
    cfg = coresim.gen_config(rng, 'C10')
    g = rng.child('c10')
    pat = g.pick(PREFIXES)
    if pat == 'none':
        ops = []
    elif pat == 'riemann':
        ops = [{'op': 'GET', 'key': 'st_Riemann_down4'}]
    elif pat == 'riemann_evicted':
        cfg['period'] = g.pick([1, 2])
        cfg['pressure'] = 'max'
        ops = [{'op': 'GET', 'key': 'st_Riemann_down4'}] + [
            {'op': 'GET', 'key': k} for k in g.sample(
                ['Ktrace', 'A2', 'Hamiltonian', 'gdet', 'rho_n', 's_RicciS',
                 'Momentumx', 'dtKtrace', 'betamag'], g.randint(2, 5))]
    elif pat == 'weyl_then_riemann':
        ops = [{'op': 'GET', 'key': 'st_Weyl_down4'},
               {'op': 'GET', 'key': 'st_Riemann_down4'}]
    elif pat == 'eb_first':
        ops = [{'op': 'GET', 'key': k} for k in g.sample(
            ['eweyl_n_down3', 'bweyl_n_down3', 'eweyl_u_down4',
             'bweyl_u_down4'], g.randint(1, 3))]
    elif pat == 'kretschmann':
        ops = [{'op': 'GET', 'key': g.pick(
            ['Kretschmann', 'st_Riemann_uddd4', 'st_RicciS',
             'Einsteindown4'])}]
    elif pat == 'psi4lm_first':
        ops = [{'op': 'GET', 'key': 'Psi4_lm'}]
        if g.chance(0.5):
            ops.append({'op': 'GET', 'key': g.pick(
                ['Weyl_Psi', 'Weyl_invariants', 'st_Weyl_down4'])})
    elif pat == 'other_object':
        # another AurelCore of the same session (another time slice) is asked
        # for curvature first / in between
        ops = [{'op': 'OTHER', 'key': g.pick(
            ['bweyl_n_down3', 'st_Riemann_down4', 'st_Weyl_down4',
             'Momentum_Escale', 'Weyl_Psi', 'eweyl_n_down3'])}]
        if g.chance(0.5):
            ops.append({'op': 'GET', 'key': g.pick(
                ['st_Riemann_down4', 'eweyl_n_down3', 'Ktrace'])})
            ops.append({'op': 'OTHER', 'key': g.pick(
                ['st_Weyl_down4', 'bweyl_n_down3', 'Kretschmann'])})
    elif pat == 'faulted':
        # an allocation fails inside the request that builds the Weyl tensor
        # (or one of its ingredients), late in the request where most state
        # has accumulated; whatever is cached afterwards is what the checks
        # below look at
        ops = []
        if g.chance(0.3):
            ops.append({'op': 'GET', 'key': 'st_Riemann_down4'})
        for _ in range(g.randint(1, 2)):
            ops.append({'op': 'GET', 'key': g.weighted(
                [('st_Weyl_down4', 5), ('eweyl_n_down3', 1),
                 ('bweyl_n_down3', 1), ('Weyl_Psi', 1),
                 ('st_Riemann_down4', 1), ('Weyl_invariants', 1)]),
                'fault': {'kind': g.weighted([('einsum', 6), ('call', 2),
                                              ('getitem', 2)]),
                          'from_end': g.randint(1, 10)}})
    else:
        ops, _ = coresim.gen_ops(rng, cfg, 'C10', nmax=10)
    post = list(POST)
    g.shuffle(post)
    return {'config': cfg, 'ops': ops, 'prefix': pat,
            'post': post[:g.randint(3, len(post))],
            'vseed': g.randrange(1 << 30)}


def fixup(run):
    return run


def simplify(run):
    for i in range(len(run['post'])):
        if len(run['post']) > 1:
            c = copy.deepcopy(run); del c['post'][i]; yield c
    for c in cc.simplify(run):
        yield c


# ---------------------------------------------------------------------------
def execute(run):
    eng = coresim.Engine(run, 'C10', {'C02'})
    rel = eng.execute()
    w = eng.world
    cfg = run['config']
    ex = w.exact
    cur, g4 = ex['cur'], ex['g']
    S = w.scale
    rtol = 3e-5 if cfg['cls'] == 'ON' else 1e-7
    viol = [v for v in eng.viol if v['prop'] == 'C02'
            and 'st_Weyl' in v['sig']]
    for v in viol:
        v['prop'] = 'C10'
    nops = len(run['ops'])

    def bad(sig, msg):
        viol.append({'prop': 'C10', 'sig': sig, 'op': nops,
                     'msg': f'[prefix {run["prefix"]}, class {cfg["cls"]}/'
                            f'{cfg.get("variant")}, tetrad {cfg["tetrad"]}, '
                            f'vacuum={cfg["vacuum"]}, period {cfg["period"]}]'
                            f' ' + msg})

    def close(a, b, p=1, what=''):
        a, b = np.asarray(a), np.asarray(b)
        if a.shape != b.shape:
            return f'{what}: shape {a.shape} vs {b.shape}'
        d = float(np.max(np.abs(a - b))) if a.size else 0.0
        lim = rtol * max(float(np.max(np.abs(b))) if b.size else 0.0, S ** p)
        if p == 1:
            # round-off floor of finite differences of the O(1) background
            lim = max(lim, eng.fd_noise())
        if not d <= lim:
            idx = np.unravel_index(int(np.argmax(np.abs(a - b))), a.shape)
            return (f'{what}: max |diff| {d:.3e} > {lim:.3e} at '
                    f'{list(map(int, idx))} (got {a[idx]!r}, expected '
                    f'{b[idx]!r})')
        return None

    m = rel._m
    riem_was_cached = 'st_Riemann_down4' in rel.data
    weyl_was_cached = 'st_Weyl_down4' in rel.data
    if 'st_Riemann_down4' in m['evicted']:
        eng.probe('riemann_cached_then_evicted')
    if run['prefix'] == 'weyl_then_riemann' and weyl_was_cached:
        eng.probe('weyl_cached_before_riemann')
    eng.probe('vacuum_flag_true' if cfg['vacuum'] else 'vacuum_flag_false')
    eng.probe('tetrad_qk' if cfg['tetrad'] == 'quasi-Kinnersley'
              else 'tetrad_other')
    touched_riemann = riem_was_cached or 'st_Riemann_down4' in m['evicted']
    compared_weyl = False
    gi = cur['gup4']
    nup = refgr.normal_frame(g4, ex['s31'])
    E_ex, B_ex = refgr.weyl_EB(g4, cur['Weyl_down4'], nup)
    if viol:
        run_post = []
    else:
        run_post = run['post']
    try:
        for chk in run_post:
            if viol:
                break
            if chk == 'weyl':
                riem_before = None
                if 'st_Riemann_down4' in rel.data:
                    riem_obj = rel.data['st_Riemann_down4']
                    riem_before = coresim.checksum(riem_obj)
                branch = None
                if 'st_Weyl_down4' not in rel.data:
                    branch = ('riemann' if 'st_Riemann_down4' in rel.data
                              else 'EB')
                    eng.probe('weyl_branch_from_' + branch)
                W = rel['st_Weyl_down4']
                compared_weyl = True
                e = close(W, cur['Weyl_down4'], 1,
                          f'st_Weyl_down4 ({branch or "as cached by the history"}'
                          ' construction) vs exact Weyl tensor')
                if e:
                    bad(f'weyl_vs_exact:{branch or "cached"}', e)
                if riem_before is not None:
                    eng.probe('riemann_unchanged_checked')
                    if coresim.checksum(riem_obj) != riem_before:
                        bad('riemann_changed_by_weyl', 'computing '
                            'st_Weyl_down4 changed the cached '
                            'st_Riemann_down4 in place')
                # the other construction, on a second instance
                other, _ = w.make(knobs=False)
                if branch != 'riemann':
                    other['st_Riemann_down4']
                W2 = other['st_Weyl_down4']
                eng.probe('other_branch_compared')
                e = close(W, W2, 1, 'st_Weyl_down4 of this history vs the '
                          f'{"Riemann" if branch != "riemann" else "E/B"}-'
                          'based construction on a second instance')
                if e:
                    bad('weyl_branches_disagree', e)
            elif chk == 'symmetries':
                W = rel['st_Weyl_down4']
                tr = np.einsum('ac...,abcd...->bd...', gi, W)
                e = close(tr, np.zeros_like(tr), 1, 'trace g^ac C_abcd')
                if e:
                    bad('weyl_not_tracefree', e)
                for nm, perm, sgn in (('C_abcd=-C_bacd', (1, 0, 2, 3), -1),
                                      ('C_abcd=-C_abdc', (0, 1, 3, 2), -1),
                                      ('C_abcd=C_cdab', (2, 3, 0, 1), 1)):
                    Wp = sgn * np.transpose(W, perm + (4, 5, 6))
                    e = close(W, Wp, 1, 'symmetry ' + nm)
                    if e:
                        bad('weyl_symmetry:' + nm, e)
                        break
            elif chk == 'eb_n':
                for key, exact in (('eweyl_n_down3', E_ex),
                                   ('bweyl_n_down3', B_ex)):
                    X = rel[key]
                    e = (close(X, np.einsum('ij...->ji...', X), 1,
                               key + ' symmetric')
                         or close(np.einsum('ij...,ij...->...',
                                            ex['s31']['gammaup3'], X),
                                  np.zeros(X.shape[2:]), 1,
                                  key + ' trace-free')
                         or close(X, exact[1:, 1:], 1, key + ' vs normal-'
                                  'frame contraction of the exact Weyl'))
                    if e:
                        bad('eb_n:' + key, e)
                        break
            elif chk == 'eb_u':
                # default fluid: u = n, so E_u/B_u are the 4D normal-frame
                # parts of the Weyl tensor
                if any(k in w.data for k in ('velx', 'vely', 'velz',
                                             'w_lorentz')):
                    continue
                for key, exact in (('eweyl_u_down4', E_ex),
                                   ('bweyl_u_down4', B_ex)):
                    e = close(rel[key], exact, 1, key + ' (u = n) vs '
                              'contraction of the exact Weyl tensor')
                    if e:
                        bad('eb_u:' + key, e)
                        break
            elif chk == 'tetrad':
                _check_tetrad(rel, cfg, ex, bad)
            elif chk == 'psi':
                W = rel['st_Weyl_down4']
                psi = rel['Weyl_Psi']
                l, k, mv, mb = rel.null_vector_base()
                eng.probe('psi_recomputed')
                c = lambda a, b, cc_, d: np.einsum(  # noqa: E731
                    'abcd...,a...,b...,c...,d...->...', W, a, b, cc_, d)
                want = [c(k, mv, k, mv), c(l, k, mv, k), c(k, mv, mb, l),
                        c(k, l, mb, l), c(l, mb, l, mb)]
                for n in range(5):
                    e = close(psi[n], want[n], 1, f'Psi{n} vs contraction '
                              'of the returned Weyl with the returned tetrad')
                    if e:
                        bad(f'psi_not_components:{n}', e)
                        break
            elif chk == 'invariants':
                _check_invariants(w, cfg, run, eng, close, bad)
    except Exception as e:  # noqa: BLE001
        site, line = coresim.exc_site(e)
        bad(f'raised:{type(e).__name__}:{site}',
            f'C10 check {chk!r} raised {type(e).__name__}: {e} at {site} '
            f'`{line}`')
    eng.viol = viol
    res = eng.result({'C10'}, nontrivial=compared_weyl and (
        touched_riemann or bool(eng.faults.get('eviction'))))
    res['state_sig'] = coresim.digest([
        cfg['cls'], cfg.get('variant'), cfg['tetrad'], cfg['vacuum'],
        run['prefix'], sorted(run['post']), cfg['period'],
        cfg['mem_scalars'], riem_was_cached, weyl_was_cached])
    return res


def _check_tetrad(rel, cfg, ex, bad):
    e0, e1, e2, e3 = rel.tetrad_base()
    p = cfg['param']
    X, Y, Z = st.coords(p)
    if cfg['tetrad'] == 'quasi-Kinnersley':
        gam = ex['s31']['gammadown3']
        tri = [e1[1:], e2[1:], e3[1:]]
        mask = (X ** 2 + Y ** 2) > (2 * max(p['dx'], p['dy'])) ** 2
        if not mask.any():
            return
        for i in range(3):
            for j in range(i, 3):
                ip = np.einsum('a...,b...,ab...->...', tri[i], tri[j], gam)
                want = 1.0 if i == j else 0.0
                d = float(np.max(np.abs(ip[mask] - want)))
                if not d <= 1e-9:
                    bad('tetrad_qk_triad_not_orthonormal',
                        f'gamma(e{i+1}, e{j+1}) deviates from {want} by '
                        f'{d:.3e} away from the axis')
                    return
        if any(np.max(np.abs(t[0])) != 0 for t in (e1, e2, e3)):
            bad('tetrad_qk_triad_not_spatial', 'triad has time components')
    else:
        g4 = ex['g']
        vs = [e0, e1, e2, e3]
        eta = np.diag([-1.0, 1, 1, 1])
        for i in range(4):
            for j in range(i, 4):
                ip = np.einsum('a...,b...,ab...->...', vs[i], vs[j], g4)
                d = float(np.max(np.abs(ip - eta[i, j])))
                if not d <= 1e-9:
                    bad('tetrad_other_not_orthonormal',
                        f'g(e{i}, e{j}) deviates from {eta[i, j]} by '
                        f'{d:.3e}')
                    return


def _check_invariants(w, cfg, run, eng, close, bad):
    """I and J must not depend on which orthonormal tetrad is used."""
    import aurel
    npr = np.random.Generator(np.random.PCG64(run['vseed']))
    X, Y, Z = st.coords(cfg['param'])
    gam = w.exact['s31']['gammadown3']
    vals = []
    for n in range(2):
        v = np.array([0.25 * np.sin(0.2 * X + npr.uniform(0, 6)) + 0.05 * n,
                      0.2 * np.cos(0.3 * Y + npr.uniform(0, 6)),
                      -0.15 * n + 0.1 * np.sin(0.1 * Z)])
        v2 = np.einsum('i...,ij...,j...->...', v, gam, v)
        if v2.max() > 0.8:
            v *= 0.5
            v2 = np.einsum('i...,ij...,j...->...', v, gam, v)
        inst, _ = w.make(knobs=False)
        inst.tetrad = 'other'
        inst.data['velx'], inst.data['vely'], inst.data['velz'] = v
        inst.data['w_lorentz'] = 1.0 / np.sqrt(1.0 - v2)
        inst.freeze_data()
        inv = inst['Weyl_invariants']
        vals.append((inv['I'], inv['J']))
        # the fluid-adapted tetrad of a TILTED fluid must be g-orthonormal
        tet = inst.tetrad_base()
        eta = np.diag([-1.0, 1, 1, 1])
        for i in range(4):
            for j in range(i, 4):
                ip = np.einsum('a...,b...,ab...->...', tet[i], tet[j],
                               w.exact['g'])
                d = float(np.max(np.abs(ip - eta[i, j])))
                if not d <= 1e-9:
                    bad('tetrad_other_not_orthonormal:tilted_fluid',
                        f'tilted fluid: g(e{i}, e{j}) deviates from '
                        f'{eta[i, j]} by {d:.3e}')
                    return
    eng.probe('invariants_two_tetrads')
    e = (close(vals[0][0], vals[1][0], 2, 'invariant I, two fluid-adapted '
               'orthonormal tetrads')
         or close(vals[0][1], vals[1][1], 3, 'invariant J, two fluid-adapted '
                  'orthonormal tetrads'))
    if e:
        bad('invariants_depend_on_tetrad', e)
        return
    if cfg['cls'] == 'KASNER':
        inst, _ = w.make(knobs=False)
        inst.tetrad = 'quasi-Kinnersley'
        inv = inst['Weyl_invariants']
        # on the axis the quasi-Kinnersley triad degenerates: mask it
        p = cfg['param']
        mask = (X ** 2 + Y ** 2) > (2 * max(p['dx'], p['dy'])) ** 2
        if mask.any():
            e = (close(inv['I'][mask], vals[0][0][mask], 2, 'invariant I, '
                       'quasi-Kinnersley vs fluid-adapted tetrad (unit '
                       'lapse, zero shift)')
                 or close(inv['J'][mask], vals[0][1][mask], 3, 'invariant J,'
                          ' quasi-Kinnersley vs fluid-adapted tetrad'))
            if e:
                bad('invariants_depend_on_tetrad:qk', e)
