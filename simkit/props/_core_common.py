"""Shared plumbing of the coresim-based property modules."""
import copy

from .. import coresim

COMPONENTS = {
    'aurel.core.AurelCore (__getitem__, cleanup_cache, freeze_data, '
    'load_data, every quantity and helper method)': 'real (thin observing '
    'subclass: records touched keys/evictions, then calls the real method)',
    'aurel.finitedifference.FiniteDifference, aurel.maths, aurel.utils.memory':
        'real',
    'cache eviction schedule': 'real policy, seeded knobs (period, memory '
                               'threshold, importance overrides)',
    'allocation failures inside a request': 'simulated: the n-th nested '
    'computation (subclass __getitem__), the n-th call of a Python function '
    'of the aurel package (sys.settrace) or the n-th einsum (the name np '
    'inside aurel.core is rebound to a counting proxy of numpy) raises '
    'MemoryError; position counted from the start or, after a dry run on a '
    'throw-away twin in the same cache state, from the end of the request',
    'reference model': 'harness: fresh AurelCore with clean-up disabled, '
                       'asked only the one request',
    'exact GR reference (refgr)': 'harness, independent NumPy implementation'}


def warmup():
    """Done once in the class child: forks inherit the scan and subclass."""
    coresim.scan_core()
    coresim.monitored_class()


def generate(rng, tier, profile, nmax=24):
    cfg = coresim.gen_config(rng, profile)
    ops, foci = coresim.gen_ops(rng, cfg, profile, nmax)
    return {'config': cfg, 'ops': ops, 'foci': foci}


def fixup(run):
    return run if run['ops'] else None


def simplify(run):
    cfg = run['config']
    if cfg.get('peek'):
        c = copy.deepcopy(run); c['config']['peek'] = []; yield c
    if cfg.get('hand_assigned'):
        c = copy.deepcopy(run); c['config']['hand_assigned'] = []; yield c
    if cfg.get('late_inputs'):
        c = copy.deepcopy(run); c['config']['late_inputs'] = []; yield c
    if cfg['freeze'] != 'freeze_data':
        c = copy.deepcopy(run); c['config']['freeze'] = 'freeze_data'; yield c
    for k, v in sorted(cfg['how'].items()):
        if v != 'tensor' and not any(
                x in cfg['omit'] for x in
                coresim.st.COMPONENTS.get(k, [])):
            c = copy.deepcopy(run); c['config']['how'][k] = 'tensor'; yield c
    if cfg.get('interp_method', 'linear') != 'linear':
        c = copy.deepcopy(run); c['config']['interp_method'] = 'linear'
        yield c
    if cfg['tetrad'] != 'quasi-Kinnersley':
        c = copy.deepcopy(run)
        c['config']['tetrad'] = 'quasi-Kinnersley'
        yield c
    if cfg['Lambda'] != 0.0 and cfg['cls'] != 'KASNER':
        c = copy.deepcopy(run); c['config']['Lambda'] = 0.0; yield c
    if cfg['mem_scalars'] is not None:
        c = copy.deepcopy(run); c['config']['mem_scalars'] = None; yield c
    for per in (20, 5, 2):
        if cfg['period'] < per:
            c = copy.deepcopy(run); c['config']['period'] = per; yield c
    if cfg.get('give_gdown4'):
        c = copy.deepcopy(run); c['config']['give_gdown4'] = False; yield c
    if cfg.get('fluid_alt', 'none') != 'none':
        c = copy.deepcopy(run); c['config']['fluid_alt'] = 'none'; yield c
    for k in list(cfg.get('extra_inputs', [])):
        c = copy.deepcopy(run); c['config']['extra_inputs'].remove(k); yield c
    if cfg['cls'] == 'OFF':
        for k in list(cfg['fluid']):
            c = copy.deepcopy(run); c['config']['fluid'].remove(k); yield c
        if len(cfg['metric_inputs']) > 1:
            for k in list(cfg['metric_inputs']):
                c = copy.deepcopy(run)
                c['config']['metric_inputs'].remove(k)
                yield c
    if cfg['boundary'] != 'periodic' and cfg['cls'] != 'ON':
        c = copy.deepcopy(run)
        c['config']['boundary'] = 'periodic'
        yield c
    if cfg['cls'] != 'ON':
        p = cfg['param']
        for ax in ('Nx', 'Ny', 'Nz'):
            lo = {2: 4, 4: 6, 6: 9, 8: 12}[cfg['fd_order']]
            if cfg['boundary'] != 'no boundary':
                lo = max(4, cfg['fd_order'] // 2 + 2)
            if p[ax] > lo:
                c = copy.deepcopy(run); c['config']['param'][ax] = lo; yield c
    for i, o in enumerate(run['ops']):
        if o.get('fault'):
            c = copy.deepcopy(run); del c['ops'][i]['fault']; yield c
        if o['op'] == 'SET_IMPORTANCE' and o['w'] not in (0, 1):
            c = copy.deepcopy(run); c['ops'][i]['w'] = 1; yield c


def execute(run, profile, props):
    eng = coresim.Engine(run, profile, props)
    eng.execute()
    return eng.result(props)
