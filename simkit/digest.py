"""Canonical byte digests of nested values (arrays, lists, dicts, scalars).

Used for (a) the trace digest that the determinism self-test compares and
(b) the C02 "unchanged since hand-out" monitor.  Never depends on dict/set
iteration order, object ids, clocks or paths outside the run directory.
"""
import hashlib

import numpy as np


def _feed(h, v):
    if v is None:
        h.update(b'N')
    elif isinstance(v, np.ndarray):
        h.update(b'A')
        h.update(str(v.dtype).encode())
        h.update(str(v.shape).encode())
        if v.dtype == object:
            for x in v.ravel().tolist():
                _feed(h, x)
        else:
            h.update(np.ascontiguousarray(v).tobytes())
    elif isinstance(v, (bool, np.bool_)):
        h.update(b'B1' if v else b'B0')
    elif isinstance(v, (int, np.integer)):
        h.update(b'I' + str(int(v)).encode())
    elif isinstance(v, (float, np.floating)):
        h.update(b'F' + np.float64(v).tobytes())
    elif isinstance(v, (complex, np.complexfloating)):
        h.update(b'C' + np.complex128(v).tobytes())
    elif isinstance(v, str):
        h.update(b'S' + v.encode() + b'\0')
    elif isinstance(v, bytes):
        h.update(b'Y' + v + b'\0')
    elif isinstance(v, (list, tuple)):
        h.update(b'L' if isinstance(v, list) else b'T')
        h.update(str(len(v)).encode())
        for x in v:
            _feed(h, x)
    elif isinstance(v, dict):
        h.update(b'D' + str(len(v)).encode())
        items = sorted(((repr(k), k, x) for k, x in v.items()),
                       key=lambda t: t[0])
        for rk, _, x in items:
            h.update(rk.encode() + b'\0')
            _feed(h, x)
    elif isinstance(v, (set, frozenset)):
        h.update(b'E')
        for rk in sorted(repr(x) for x in v):
            h.update(rk.encode() + b'\0')
    elif callable(v):
        h.update(b'FN' + getattr(v, '__name__', 'fn').encode())
    else:
        h.update(b'R' + repr(v).encode())


def digest(v):
    h = hashlib.sha1()
    _feed(h, v)
    return h.hexdigest()[:16]


class Trace:
    """Append-only event log with a rolling digest and a global sequence no."""

    def __init__(self, keep=400):
        self._h = hashlib.sha1()
        self.seq = 0
        self.events = []
        self.keep = keep

    def event(self, kind, **fields):
        self.seq += 1
        rec = {'seq': self.seq, 'kind': kind}
        rec.update(fields)
        line = repr(sorted((k, repr(v)) for k, v in rec.items()))
        self._h.update(line.encode())
        if len(self.events) < self.keep:
            self.events.append(rec)
        return rec

    def hexdigest(self):
        return self._h.hexdigest()
