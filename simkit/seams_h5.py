"""Harness-side I/O fault seam for aurel.reading: a proxy for the `h5py`
module name inside aurel.reading (DESIGN 2.3, 11.2).

Every HDF5 file aurel opens goes through `h5py.File`; the proxy counts the
calls by kind and lets the simulator fail exactly one of them per armed plan:

  open_r   h5py.File(name, 'r')                      -> EIO   (unreadable file)
  open_w   h5py.File(name, 'a' | 'w' | 'r+')         -> EIO / EACCES
  create   File.create_dataset(...)                  -> ENOSPC (disk full)
  delete   del File[key]                             -> EIO

`when` = 'before' (the operation did not happen) or 'after' (it happened, the
error is reported afterwards - a failed flush).  The file object is always
closed properly (aurel uses `with`), so what is modelled is an I/O *error*
surfacing as an exception in the caller's session, after which the caller
carries on - not a torn HDF5 file.  Files are real, on a real file system.
"""
import contextlib
import errno

_ERR = {'ENOSPC': errno.ENOSPC, 'EIO': errno.EIO, 'EACCES': errno.EACCES}


class InjectedIOError(OSError):
    pass


class Plan:
    """At most one fault: the `at`-th call (1-based) of kind `kind`."""

    def __init__(self):
        self.counts = {'open_r': 0, 'open_w': 0, 'create': 0, 'delete': 0}
        self.armed = None
        self.fired = None

    def arm(self, spec):
        """spec: {'kind', 'at', 'when', 'err'} or None.  Counting restarts."""
        self.armed = dict(spec) if spec else None
        self.fired = None
        for k in self.counts:
            self.counts[k] = 0

    def disarm(self):
        fired = self.fired
        self.armed = None
        self.fired = None
        return fired

    def hit(self, kind, when, what):
        """Called before and after each intercepted operation."""
        a = self.armed
        if when == 'before':
            self.counts[kind] += 1
        if a is None or a['kind'] != kind or a.get('when', 'before') != when:
            return
        if self.counts[kind] == a['at']:
            self.armed = None
            self.fired = {'kind': kind, 'when': when, 'what': what,
                          'n': self.counts[kind]}
            raise InjectedIOError(_ERR[a.get('err', 'EIO')],
                                  f'injected {a.get("err", "EIO")} ({kind} '
                                  f'#{self.counts[kind]}, {when}): {what}')


class _FileProxy:
    def __init__(self, real, plan, name):
        object.__setattr__(self, '_f', real)
        object.__setattr__(self, '_plan', plan)
        object.__setattr__(self, '_name', name)

    # context manager ------------------------------------------------------
    def __enter__(self):
        self._f.__enter__()
        return self

    def __exit__(self, *a):
        return self._f.__exit__(*a)

    # intercepted mutators ---------------------------------------------------
    def create_dataset(self, name, *a, **k):
        what = f'{self._name}[{name!r}]'
        self._plan.hit('create', 'before', what)
        out = self._f.create_dataset(name, *a, **k)
        self._plan.hit('create', 'after', what)
        return out

    def __delitem__(self, key):
        what = f'{self._name}[{key!r}]'
        self._plan.hit('delete', 'before', what)
        del self._f[key]
        self._plan.hit('delete', 'after', what)

    def __setitem__(self, key, value):
        what = f'{self._name}[{key!r}]'
        self._plan.hit('create', 'before', what)
        self._f[key] = value
        self._plan.hit('create', 'after', what)

    # plain delegation ------------------------------------------------------
    def __getitem__(self, key):
        return self._f[key]

    def __contains__(self, key):
        return key in self._f

    def __iter__(self):
        return iter(self._f)

    def __len__(self):
        return len(self._f)

    def __getattr__(self, name):
        return getattr(self._f, name)

    def __setattr__(self, name, value):
        setattr(self._f, name, value)

    def __bool__(self):
        return bool(self._f)


class _H5Proxy:
    def __init__(self, real, plan):
        self._real = real
        self._plan = plan

    def File(self, name, mode='r', *a, **k):          # noqa: N802
        from . import seams_fs
        seams_fs.preempt(f'open:{name}')
        kind = 'open_r' if mode == 'r' else 'open_w'
        self._plan.hit(kind, 'before', f'{name} mode={mode}')
        f = self._real.File(name, mode, *a, **k)
        try:
            self._plan.hit(kind, 'after', f'{name} mode={mode}')
        except BaseException:
            f.close()
            raise
        return _FileProxy(f, self._plan, str(name))

    def __getattr__(self, name):
        return getattr(self._real, name)


@contextlib.contextmanager
def h5_faults():
    """Rebind aurel.reading.h5py to the proxy; yields the Plan."""
    import aurel.reading as rd
    plan = Plan()
    old = rd.h5py
    rd.h5py = _H5Proxy(old, plan)
    try:
        yield plan
    finally:
        rd.h5py = old


def gen_fault(g, kinds=('create', 'open_w', 'delete', 'open_r'), max_at=6):
    """A seeded fault spec."""
    kind = g.pick(list(kinds))
    return {'kind': kind,
            'at': g.weighted([(1, 4), (2, 3), (3, 2), (4, 1), (max_at, 1)]),
            'when': g.weighted([('before', 3), ('after', 1)]),
            'err': {'create': 'ENOSPC', 'open_w': 'EACCES'}.get(kind, 'EIO')}
