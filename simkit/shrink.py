"""Minimisation of a failing run: ddmin over ops, then greedy simplification.

`fails(run)` returns the violation record (same signature) or None.
The property module may provide
  simplify(run) -> iterable of candidate runs, each strictly "simpler"
  fixup(run)    -> run made self-consistent after ops were dropped (optional)
"""
import copy
import time


def minimise(prop, run, fails, budget_s=120, budget_n=300):
    t0 = time.time()
    tries = [0]
    best_v = [None]

    def ok():
        return (budget_s > 0 and tries[0] < budget_n
                and time.time() - t0 < budget_s)

    def test(cand):
        tries[0] += 1
        if hasattr(prop, 'fixup'):
            cand = prop.fixup(cand)
            if cand is None:
                return None
        v = fails(cand)
        if v is not None:
            best_v[0] = v
            return cand
        return None

    # --- ddmin on the op list ---------------------------------------------
    ops = list(run.get('ops', []))
    n = 2
    while len(ops) >= 1 and ok():
        chunk = max(1, len(ops) // n)
        reduced = False
        i = 0
        while i < len(ops) and ok():
            cand_ops = ops[:i] + ops[i + chunk:]
            cand = copy.deepcopy(run)
            cand['ops'] = cand_ops
            got = test(cand)
            if got is not None:
                run = got
                ops = list(run['ops'])
                n = max(n - 1, 2)
                reduced = True
            else:
                i += chunk
        if not reduced:
            if chunk == 1:
                break
            n = min(len(ops), n * 2)

    # --- greedy simplification of config / arguments ------------------------
    if hasattr(prop, 'simplify'):
        progress = True
        while progress and ok():
            progress = False
            try:
                for cand in prop.simplify(copy.deepcopy(run)):
                    if not ok():
                        break
                    got = test(cand)
                    if got is not None:
                        run = got
                        progress = True
                        break
            except Exception:  # noqa: BLE001 - a simplifier bug must not
                break          # lose the (already confirmed) violation
    return run, best_v[0], tries[0]
