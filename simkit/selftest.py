"""Self-tests that gate the checks (DESIGN 2.8).

  vcheck --selftest determinism [IDs...] [--n N]
      every run index 0..N-1 is executed in fresh interpreters at worker
      counts 1, 4 and 16, and additionally with the PYTHONHASHSEED classes
      rotated (so every run also executes under another hash seed); all trace
      digests must be identical.  For the I/O engines this is at the same
      time a check that results do not depend on the hash seed (the digests
      are order-canonical).
  vcheck --selftest refgr
      the independent GR reference against closed forms (Kasner, FLRW,
      de Sitter, Schwarzschild)
  vcheck --selftest witnesses
      every witness of a 'fixed' known finding must NOT reproduce on the
      current tree; every witness of a 'known' finding must reproduce.
"""
import json
import os
import sys

from . import findings, runner

ALL = ['C01', 'C02', 'C03', 'C10', 'C11', 'C12', 'C13', 'C14', 'C15', 'C18']


def determinism(ids, n):
    bad = 0
    for pid in ids:
        prop = runner.load_prop(pid)
        nc = getattr(prop, 'HASH_CLASSES', 1)
        idx = list(range(n))
        base = None
        variants = [('w1', 1, 0), ('w4', 4, 0), ('w16', 16, 0),
                    ('rot', 16, 1)]
        for name, workers, rot in variants:
            saved = list(runner.HASHSEEDS)
            try:
                if rot:
                    runner.HASHSEEDS[:] = saved[1:] + saved[:1]
                res = runner.run_indices(pid, 4242, 'quick', idx, nc,
                                         workers, 'self' + name, 3600)
            finally:
                runner.HASHSEEDS[:] = saved
            dig = [(r['index'], r.get('digest'), r.get('harness_error'))
                   for r in res]
            if base is None:
                base = dig
            diff = [a[0] for a, b in zip(base, dig) if a[1] != b[1]
                    and not str(a[1]).startswith('inconclusive')
                    and not str(b[1]).startswith('inconclusive')]
            herr = [a[0] for a in dig if a[2]]
            status = 'ok' if not diff and not herr else 'MISMATCH'
            print(f'[selftest determinism] {pid} {name}: {len(dig)} runs, '
                  f'{status}' + (f' differing runs {diff[:10]}' if diff else
                                 '') + (f' harness errors {herr[:5]}'
                                        if herr else ''), flush=True)
            if diff or herr:
                bad += 1
    return 1 if bad else 0


def witnesses():
    bad = 0
    with open(findings.PATH) as f:
        data = json.load(f)['findings']
    for e in data:
        wits = [e.get('witness')] + list(e.get('other_witnesses', []))
        for w in wits:
            if not w:
                continue
            path = os.path.join(runner.VERIF, w)
            if not os.path.exists(path):
                print(f'[selftest witnesses] MISSING {w}')
                bad += 1
                continue
            rc, out = runner.replay_file(path)
            want = 1 if e['status'] == 'known' else 0
            ok = rc == want
            print(f"[selftest witnesses] {e['property']} {e['status']:5s} "
                  f"{w}: rc={rc} {'ok' if ok else 'UNEXPECTED'}", flush=True)
            if not ok:
                bad += 1
                print(out[-600:])
    # replays of former FALSE alarms (the machinery was corrected): they must
    # stay quiet on the current tree
    import glob
    for path in sorted(glob.glob(os.path.join(runner.VERIF, 'findings',
                                              'noalarm', '*.json'))):
        rc, out = runner.replay_file(path)
        print(f'[selftest witnesses] former false alarm '
              f'{os.path.basename(path)}: rc={rc} '
              f"{'ok' if rc == 0 else 'UNEXPECTED'}", flush=True)
        if rc != 0:
            bad += 1
    return 1 if bad else 0


def main(argv):
    if not argv:
        print(__doc__)
        return 2
    mode = argv[0]
    rest = argv[1:]
    n = 24
    if '--n' in rest:
        n = int(rest[rest.index('--n') + 1])
        rest = [a for i, a in enumerate(rest)
                if a != '--n' and (i == 0 or rest[i - 1] != '--n')]
    if mode == 'determinism':
        return determinism(rest or ALL, n)
    if mode == 'witnesses':
        return witnesses()
    if mode == 'refgr':
        import subprocess
        return subprocess.run(
            [runner.PY, os.path.join(runner.VERIF, 'selftest',
                                     'refgr_closed_forms.py')]).returncode
    print(__doc__)
    return 2


if __name__ == '__main__':
    sys.exit(main(sys.argv[1:]))
