"""refgr - independent pointwise reference GR (DESIGN 3.1).

Input: a 4-metric and its first and second partial derivatives, all given in
closed form at every grid point:
    g[a,b,...], dg[m,a,b,...] = d_m g_ab, ddg[m,n,a,b,...] = d_m d_n g_ab
(index 0 is t).  Output: textbook connection, curvature, Weyl tensor, the 3+1
split and the matter that makes the metric an exact solution,
    T_ab := (G_ab + Lambda g_ab) / kappa.
No finite differencing, no symbolic algebra, shares no code with aurel.

Conventions (validated against aurel, see memory note / DESIGN 3.1):
  Gamma_{dbc} = 1/2 (d_b g_dc + d_c g_db - d_d g_bc)
  R^a_bcd = d_c Gamma^a_db - d_d Gamma^a_cb + Gamma^a_ce Gamma^e_db
            - Gamma^a_de Gamma^e_cb ;  R_bd = R^a_bad
  C_abcd = R_abcd - 1/2 (g_ac R_bd - g_ad R_bc - g_bc R_ad + g_bd R_ac)
           + R/6 (g_ac g_bd - g_ad g_bc)
  K_ij = -(d_t gamma_ij - D_i beta_j - D_j beta_i) / (2 alpha)
  n^a = (1, -beta^i)/alpha ; E_ac = C_abcd n^b n^d ;
  B_ac = 1/2 eps_ab^{ef} C_efcd n^b n^d, eps_0123 = +sqrt(-g)
"""
import itertools

import numpy as np

KAPPA = 8 * np.pi


def _inv(m):
    """Inverse of an [n,n,...] field of matrices."""
    mm = np.moveaxis(m, (0, 1), (-2, -1))
    return np.moveaxis(np.linalg.inv(mm), (-2, -1), (0, 1))


def _det(m):
    return np.linalg.det(np.moveaxis(m, (0, 1), (-2, -1)))


def levicivita4():
    e = np.zeros((4, 4, 4, 4))
    for p in itertools.permutations(range(4)):
        sign = 1
        q = list(p)
        for i in range(4):
            for j in range(i + 1, 4):
                if q[i] > q[j]:
                    sign = -sign
        e[p] = sign
    return e


def curvature(g, dg, ddg, Lambda=0.0):
    gi = _inv(g)
    # Christoffel, all indices down: Gd[d,b,c]
    Gd = 0.5 * (np.einsum('bdc...->dbc...', dg) + np.einsum('cdb...->dbc...', dg)
                - dg)
    Gu = np.einsum('ad...,dbc...->abc...', gi, Gd)
    dgi = -np.einsum('ap...,epq...,qd...->ead...', gi, dg, gi)
    dGd = 0.5 * (np.einsum('ebdc...->edbc...', ddg)
                 + np.einsum('ecdb...->edbc...', ddg)
                 - np.einsum('edbc...->edbc...', ddg))
    dGu = (np.einsum('ead...,dbc...->eabc...', dgi, Gd)
           + np.einsum('ad...,edbc...->eabc...', gi, dGd))
    # R^a_bcd
    Ru = (np.einsum('cadb...->abcd...', dGu) - np.einsum('dacb...->abcd...', dGu)
          + np.einsum('ace...,edb...->abcd...', Gu, Gu)
          - np.einsum('ade...,ecb...->abcd...', Gu, Gu))
    Rd = np.einsum('ae...,ebcd...->abcd...', g, Ru)
    Ric = np.einsum('abad...->bd...', Ru)
    RS = np.einsum('bd...,bd...->...', gi, Ric)
    G = Ric - 0.5 * RS * g
    T = (G + Lambda * g) / KAPPA
    C = (Rd
         - 0.5 * (np.einsum('ac...,bd...->abcd...', g, Ric)
                  - np.einsum('ad...,bc...->abcd...', g, Ric)
                  - np.einsum('bc...,ad...->abcd...', g, Ric)
                  + np.einsum('bd...,ac...->abcd...', g, Ric))
         + (RS / 6.0) * (np.einsum('ac...,bd...->abcd...', g, g)
                         - np.einsum('ad...,bc...->abcd...', g, g)))
    Ruu = np.einsum('abcd...,ae...,bf...->efcd...', Rd, gi, gi)
    Kretsch = np.einsum('abcd...,cdab...->...', Ruu, Ruu)
    return {'gup4': gi, 'gdet': _det(g), 'Gamma_udd4': Gu, 'Riemann_uddd4': Ru,
            'Riemann_down4': Rd, 'Ricci_down4': Ric, 'RicciS': RS,
            'Einstein_down4': G, 'Tdown4': T, 'Weyl_down4': C,
            'Kretschmann': Kretsch}


def split31(g, dg):
    """alpha, beta^i, gamma_ij, K_ij, d_t alpha, d_t beta^i from g, dg."""
    gam = g[1:, 1:]
    gamu = _inv(gam)
    bd = g[0, 1:]
    bu = np.einsum('ij...,j...->i...', gamu, bd)
    alpha = np.sqrt(np.einsum('i...,i...->...', bd, bu) - g[0, 0])
    dgam = dg[1:, 1:, 1:]                      # [k,i,j] = d_k gamma_ij
    G3d = 0.5 * (np.einsum('jki...->kij...', dgam)
                 + np.einsum('ikj...->kij...', dgam) - dgam)
    G3 = np.einsum('lk...,kij...->lij...', gamu, G3d)
    dbd = dg[1:, 0, 1:]                         # [i,j] = d_i beta_j
    Db = dbd - np.einsum('kij...,k...->ij...', G3, bd)
    dtgam = dg[0, 1:, 1:]
    K = -(dtgam - Db - np.einsum('ij...->ji...', Db)) / (2 * alpha)
    dtalpha = (-np.einsum('i...,ij...,j...->...', bu, dtgam, bu)
               + 2 * np.einsum('i...,i...->...', bu, dg[0, 0, 1:])
               - dg[0, 0, 0]) / (2 * alpha)
    dtbu = (-np.einsum('ia...,ab...,b...->i...', gamu, dtgam, bu)
            + np.einsum('ij...,j...->i...', gamu, dg[0, 0, 1:]))
    return {'alpha': alpha, 'betaup3': bu, 'betadown3': bd,
            'gammadown3': gam, 'gammaup3': gamu, 'Kdown3': K,
            'dtalpha': dtalpha, 'dtbetaup3': dtbu}


def normal_frame(g, s31):
    alpha, bu = s31['alpha'], s31['betaup3']
    one = np.ones_like(alpha)
    nup = np.array([one, -bu[0], -bu[1], -bu[2]]) / alpha
    return nup


def weyl_EB(g, C, nup):
    """Electric and magnetic parts w.r.t. the unit vector nup (4x4, down)."""
    gi = _inv(g)
    E = np.einsum('abcd...,b...,d...->ac...', C, nup, nup)
    eps = levicivita4()
    sq = np.sqrt(-_det(g))
    # eps_ab^{ef} = eps_abcd g^ce g^df * sqrt(-g)
    eps_mixed = np.einsum('abcd,ce...,df...->abef...', eps, gi, gi) * sq
    B = 0.5 * np.einsum('abef...,efcd...,b...,d...->ac...', eps_mixed, C,
                        nup, nup)
    return E, B


def gram(vectors, metric):
    """Matrix of inner products of a list of vectors with `metric`."""
    n = len(vectors)
    out = np.empty((n, n) + vectors[0].shape[1:], dtype=complex if any(
        np.iscomplexobj(v) for v in vectors) else float)
    for i in range(n):
        for j in range(n):
            out[i, j] = np.einsum('a...,b...,ab...->...', vectors[i],
                                  vectors[j], metric)
    return out
