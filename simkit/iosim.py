"""Shared reader-side helpers for the I/O engines (C11, C12, C18)."""
import traceback

import numpy as np

from . import etsim


def aurel_site(exc):
    """Innermost frame inside aurel where `exc` was raised (function name)."""
    site = 'outside_aurel'
    for fr in traceback.extract_tb(exc.__traceback__):
        if '/aurel/' in fr.filename.replace('\\', '/'):
            site = fr.name
    return site


def expand_vars(sim_vars_et, vars_aurel):
    """Requested aurel names -> list of (aurel component name, ET name) that
    exist in the simulation."""
    inv = {etsim.aurel_name(v): v for v in sim_vars_et}
    out = []
    for v in vars_aurel:
        comps = etsim.AUREL_TENSORS.get(v, [v])
        for c in comps:
            if c in inv and (c, inv[c]) not in out:
                out.append((c, inv[c]))
    return out


def diff_kind(got, exp, var_et, it, rl, restart):
    """Classify the first differing cell between a returned array and truth."""
    got = np.asarray(got)
    if got.shape != exp.shape:
        return 'shape', f'shape {got.shape} instead of {exp.shape}'
    bad = np.argwhere(got != exp)
    if len(bad) == 0:
        return None, ''
    idx = tuple(bad[0])
    g = etsim.explain(got[idx])
    e = etsim.explain(exp[idx])
    kind = 'other'
    if g.startswith('ghost'):
        kind = 'ghost_cell'
    elif g.startswith('value'):
        kind = 'foreign_value'
    else:
        gv = g.split(' ')
        ev = e.split(' ')
        if gv[0] != ev[0]:
            kind = 'wrong_variable'
        elif gv[1] != ev[1]:
            kind = 'wrong_restart'
        elif gv[2] != ev[2]:
            kind = 'wrong_level'
        elif gv[3] != ev[3]:
            kind = 'wrong_iteration'
        else:
            kind = 'misplaced_cells'
    return kind, (f'{len(bad)} of {exp.size} cells differ; first at '
                  f'(x,y,z)={idx}: got [{g}] expected [{e}]')


class Catalogued:
    """Which restarts the persistent iterations.txt can contain so far.

    `seen`: certainly recorded (a call that completed covered them);
    `maybe`: a call that hit an I/O error may or may not have recorded them
    (cleared by the next call that completes)."""

    def __init__(self):
        self.seen = set()
        self.maybe = set()

    def call(self, present_restarts, skip_last, failed=False):
        rs = sorted(present_restarts)
        if skip_last:
            rs = rs[:-1]
        if failed:
            self.maybe |= set(rs) - self.seen
            return sorted(self.seen)
        self.seen |= set(rs)
        self.maybe -= self.seen
        return sorted(self.seen)

    def peek(self, present_restarts, skip_last):
        rs = sorted(present_restarts)
        if skip_last:
            rs = rs[:-1]
        return sorted(self.seen | set(rs))


def expected_read(sim, cfg, vis, op):
    """What a read_data call must return, from the writer's ground truth.

    Returns dict(comps, chosen {it: restart}, absent [its], exp_its,
    other_cls, earlier_only)."""
    outs = sim.outputs
    rl = op['rl']
    simv = etsim.sim_vars(cfg)
    comps = expand_vars(simv, op['vars'] or [etsim.aurel_name(v)
                                             for v in simv])
    its = sorted(set(op['it']))
    chosen, absent, earlier_only = {}, [], []
    chk = bool(op.get('chk'))

    def has(r, iit):
        if chk:         # a checkpoint holds every variable on every level
            return iit in sim.checkpoints.get(r, [])
        return iit in outs[r].get(rl, [])
    for iit in its:
        if op.get('restart', -1) >= 0:
            r0 = op['restart']
            cand = [r0] if (r0 in vis and has(r0, iit)) else []
        else:
            cand = [r for r in vis if has(r, iit)]
        if cand:
            chosen[iit] = cand[-1]
            if op.get('restart', -1) < 0 and not chk:
                for r in vis:
                    iv = etsim.interval(outs[r])
                    if r > cand[-1] and iv and iv[0] <= iit <= iv[1]:
                        earlier_only.append(iit)
        else:
            absent.append(iit)
    rs_read = vis if op.get('restart', -1) < 0 else [op['restart']]
    other_cls = any(cfg['restarts'][r]['classes'][rl] == 'other'
                    for r in rs_read if r < len(cfg['restarts']))
    return {'comps': comps, 'chosen': chosen, 'absent': absent,
            'exp_its': [i for i in its if i in chosen],
            'other_cls': other_cls, 'earlier_only': earlier_only}


def check_returned(sim, cfg, op, opi, got, exp, viol, tag='', lossy=None):
    """Compare a returned read_data dict with the expectation. Returns the
    number of arrays compared.

    lossy: None, or a list that collects what was *missing* (iterations,
    columns, None entries).  Used after an injected I/O error: from then on a
    call may lose data or raise, but whatever it returns must still be right
    (DESIGN 11.2)."""
    rl = op['rl']
    n_cmp = 0
    got_its = [int(x) for x in got.get('it', [])]
    exp_its = exp['exp_its']
    if got_its != exp_its:
        if lossy is not None and set(got_its) <= set(exp_its) \
                and got_its == [i for i in exp_its if i in got_its]:
            lossy.append('iterations_missing')
            exp_its = got_its
        else:
            viol.append({'sig': f'read{tag}:it_column', 'op': opi,
                         'msg': f'op#{opi} read_data({_fmt(op)}) returned it='
                                f'{got_its}; on disk: {exp["exp_its"]}'})
            return 0
    if exp['comps']:
        exp_t = [sim.time_of(i) for i in exp_its]
        got_t = [None if x is None else float(x) for x in got.get('t', [])]
        if got_t != exp_t:
            if lossy is not None and len(got_t) == len(exp_t) and all(
                    g is None or g == e for g, e in zip(got_t, exp_t)):
                lossy.append('t_missing')
            else:
                viol.append({'sig': f'read{tag}:t_column', 'op': opi,
                             'msg': f'op#{opi} read_data({_fmt(op)}) t='
                                    f'{got_t} expected {exp_t} for it='
                                    f'{exp_its}'})
    for an, ev in exp['comps']:
        if an not in got:
            if lossy is not None:
                lossy.append('column_missing')
                continue
            viol.append({'sig': f'read{tag}:missing_var', 'op': opi,
                         'msg': f'op#{opi} read_data({_fmt(op)}) has no '
                                f'column {an!r}; keys {sorted(got)}'})
            continue
        col = got[an]
        if len(col) != len(exp_its):
            viol.append({'sig': f'read{tag}:column_length', 'op': opi,
                         'msg': f'op#{opi} column {an!r} has {len(col)} '
                                f'entries for {len(exp_its)} its'})
            continue
        for n, iit in enumerate(exp_its):
            r = exp['chosen'][iit]
            if col[n] is None:
                if lossy is not None:
                    lossy.append('none_entry')
                    continue
                viol.append({'sig': f'read{tag}:none_entry', 'op': opi,
                             'msg': f'op#{opi} read_data({_fmt(op)}) '
                                    f'returned None for {an!r} it={iit} '
                                    f'which is on disk in restart {r}'})
                return n_cmp
            truth = sim.truth_array(ev, iit, rl, r,
                                    source='chk' if op.get('chk') else '3d')
            kind, msg = diff_kind(col[n], truth, ev, iit, rl, r)
            n_cmp += 1
            if kind is not None and lossy is not None:
                # a catalogue built while a file was unreadable lacks that
                # restart's record of the iteration: the earlier restart's
                # data for it is stale, not foreign
                older = sim.truth_array(
                    ev, iit, rl, None, all_restarts=True,
                    source='chk' if op.get('chk') else '3d')
                if any(r2 < r and np.array_equal(np.asarray(col[n]), a2)
                       for r2, a2 in older):
                    lossy.append('older_restart_served')
                    continue
            if kind is not None:
                viol.append({
                    'sig': f'read{tag}:wrong_cells:{kind}', 'op': opi,
                    'msg': f'op#{opi} read_data({_fmt(op)}) var {an!r} '
                           f'it={iit} rl={rl} (truth: restart {r}): ' + msg})
                return n_cmp
    return n_cmp


def _fmt(op):
    return ', '.join(f'{k}={op[k]}' for k in sorted(op) if k != 'op')


def audit_cache(sim, cfg, h5py, glob, viol, opi):
    """Every dataset of every all_iterations/it_<n>.hdf5 must hold the data
    of the (variable, iteration, level) it is filed under, from the restart
    directory it lives in.  Returns number of datasets audited."""
    inv = {etsim.aurel_name(v): v for v in etsim.sim_vars(cfg)}
    n = 0
    for r in range(len(cfg['restarts'])):
        d = sim.rdir(r) + 'all_iterations/'
        for fn in sorted(glob.glob(d + 'it_*.hdf5')):
            it = int(fn.rsplit('it_', 1)[1].split('.')[0])
            with h5py.File(fn, 'r') as f:
                for key in sorted(f.keys()):
                    name, rl = key.rsplit(' rl=', 1)
                    rl = int(rl)
                    val = np.array(f[key])
                    n += 1
                    if name == 'it':
                        ok, what = (val.shape == () and int(val) == it,
                                    f'value {val!r}')
                        kind = 'it_dataset'
                    elif name == 't':
                        ok, what = (val.shape == ()
                                    and float(val) == sim.time_of(it),
                                    f'value {val!r}, expected '
                                    f'{sim.time_of(it)}')
                        kind = 't_dataset'
                    elif name not in inv:
                        ok, what, kind = False, 'unknown variable', 'unknown'
                    elif it not in sim.outputs[r].get(rl, []):
                        ok, kind = False, 'not_in_this_restart'
                        what = (f'restart {r} never wrote it={it} rl={rl}; '
                                f'first cell: '
                                f'{etsim.explain(val.flat[0]) if val.size else "-"}')
                    else:
                        truth = sim.truth_array(inv[name], it, rl, r)
                        kind, what = diff_kind(val, truth, inv[name], it,
                                               rl, r)
                        ok = kind is None
                    if not ok:
                        viol.append({
                            'sig': f'cache:wrong_dataset:{kind}', 'op': opi,
                            'msg': f'after op#{opi}: {fn}[{key!r}] does not '
                                   f'hold ({name}, it={it}, rl={rl}, restart '
                                   f'{r}): {what}'})
                        return n
    return n
