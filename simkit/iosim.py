"""Shared reader-side helpers for the I/O engines (C11, C12, C18)."""
import traceback

import numpy as np

from . import etsim


def aurel_site(exc):
    """Innermost frame inside aurel where `exc` was raised (function name)."""
    site = 'outside_aurel'
    for fr in traceback.extract_tb(exc.__traceback__):
        if '/aurel/' in fr.filename.replace('\\', '/'):
            site = fr.name
    return site


def expand_vars(sim_vars_et, vars_aurel):
    """Requested aurel names -> list of (aurel component name, ET name) that
    exist in the simulation."""
    inv = {etsim.aurel_name(v): v for v in sim_vars_et}
    out = []
    for v in vars_aurel:
        comps = etsim.AUREL_TENSORS.get(v, [v])
        for c in comps:
            if c in inv and (c, inv[c]) not in out:
                out.append((c, inv[c]))
    return out


def diff_kind(got, exp, var_et, it, rl, restart):
    """Classify the first differing cell between a returned array and truth."""
    got = np.asarray(got)
    if got.shape != exp.shape:
        return 'shape', f'shape {got.shape} instead of {exp.shape}'
    bad = np.argwhere(got != exp)
    if len(bad) == 0:
        return None, ''
    idx = tuple(bad[0])
    g = etsim.explain(got[idx])
    e = etsim.explain(exp[idx])
    kind = 'other'
    if g.startswith('ghost'):
        kind = 'ghost_cell'
    elif g.startswith('value'):
        kind = 'foreign_value'
    else:
        gv = g.split(' ')
        ev = e.split(' ')
        if gv[0] != ev[0]:
            kind = 'wrong_variable'
        elif gv[1] != ev[1]:
            kind = 'wrong_restart'
        elif gv[2] != ev[2]:
            kind = 'wrong_level'
        elif gv[3] != ev[3]:
            kind = 'wrong_iteration'
        else:
            kind = 'misplaced_cells'
    return kind, (f'{len(bad)} of {exp.size} cells differ; first at '
                  f'(x,y,z)={idx}: got [{g}] expected [{e}]')


class Catalogued:
    """Which restarts the persistent iterations.txt can contain so far."""

    def __init__(self):
        self.seen = set()

    def call(self, present_restarts, skip_last):
        rs = sorted(present_restarts)
        if skip_last:
            rs = rs[:-1]
        self.seen |= set(rs)
        return sorted(self.seen)
