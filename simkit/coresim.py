"""coresim - AurelCore request histories under eviction pressure (DESIGN 4).

System under test: one real AurelCore (thin observing subclass) holding frozen
inputs, driven by a recorded list of ops (GET key / HELPER call /
SET_IMPORTANCE) under seeded cache knobs.
Reference model: a fresh instance with the same inputs and options, clean-up
disabled, asked ONLY the one request.
Monitors: value/outcome vs reference (C01), byte checksums + read-only flags
of every array handed in or out (C02), cache bookkeeping invariants (C03).
"""
import ast
import inspect
import textwrap
import traceback
import zlib

import numpy as np

from . import compare, refgr, spacetimes as st
from .digest import Trace, digest

PHYSICAL_ROOTS = {'st_Ricci_down4', 'st_Ricci_down3', 'st_Weyl_down4'}
NEVER = 10 ** 9

_SCAN = {}


def scan_core():
    """AST scan of AurelCore: guards ('X' in self.data) and dependencies."""
    if _SCAN:
        return _SCAN
    import aurel.core as core
    tree = ast.parse(textwrap.dedent(inspect.getsource(core.AurelCore)))
    guards, deps = {}, {}
    for node in tree.body[0].body:
        if not isinstance(node, ast.FunctionDef):
            continue
        for sub in ast.walk(node):
            if (isinstance(sub, ast.Compare) and len(sub.ops) == 1
                    and isinstance(sub.ops[0], (ast.In, ast.NotIn))
                    and isinstance(sub.left, ast.Constant)
                    and isinstance(sub.left.value, str)
                    and ast.unparse(sub.comparators[0]).startswith(
                        'self.data')):
                guards.setdefault(node.name, set()).add(sub.left.value)
            if (isinstance(sub, ast.Call)
                    and isinstance(sub.func, ast.Attribute)
                    and ast.unparse(sub.func.value) == 'self'
                    and hasattr(core.AurelCore, sub.func.attr)
                    and sub.func.attr not in ('myprint',)):
                deps.setdefault(node.name, set()).add(sub.func.attr)
            if (isinstance(sub, ast.Subscript)
                    and isinstance(sub.slice, ast.Constant)
                    and isinstance(sub.slice.value, str)
                    and ast.unparse(sub.value) in ('self', 'self.data')):
                deps.setdefault(node.name, set()).add(sub.slice.value)
    keys = sorted(core.descriptions.keys())
    # guards written as all()/any() over several keys are not literal
    # `'X' in self.data` comparisons; list them so that generation and the
    # reach probes still know about them
    for meth, gks in (('Momentumup3', ['Momentumx', 'Momentumy', 'Momentumz']),
                      ('s_to_st', ['betaup3', 'betax', 'betay', 'betaz'])):
        if hasattr(core.AurelCore, meth):
            guards.setdefault(meth, set()).update(gks)
    callers = {}
    for m, ds in deps.items():
        for d in ds:
            callers.setdefault(d, set()).add(m)
    consumers = {}
    for k in set(callers):
        seen, frontier = set(), {k}
        for _ in range(3):
            frontier = {c for f in frontier for c in callers.get(f, ())} - seen
            seen |= frontier
        consumers[k] = sorted(c for c in seen if c in keys)
    _SCAN['consumers'] = consumers
    # keys ranked by the size of their transitive dependency closure: the
    # "deep" keys run the most code over whatever is cached / handed out
    clos = {}

    def closure(k, stack=()):
        if k in clos:
            return clos[k]
        if k in stack:
            return set()
        out = set()
        for d in deps.get(k, ()):
            out.add(d)
            out |= closure(d, stack + (k,))
        clos[k] = out
        return out
    _SCAN['deep'] = sorted(keys, key=lambda k: (-len(closure(k)), k))[:30]
    _SCAN.update({'guards': {k: sorted(v) for k, v in guards.items()},
                  'deps': {k: sorted(v) for k, v in deps.items()},
                  'callers': {k: sorted(v) for k, v in callers.items()},
                  'keys': keys})
    return _SCAN


SIBLINGS = {
    'gammadown3': ['gxx', 'gxy', 'gxz', 'gyy', 'gyz', 'gzz'],
    'Kdown3': ['kxx', 'kxy', 'kxz', 'kyy', 'kyz', 'kzz'],
    'betaup3': ['betax', 'betay', 'betaz'],
    'dtbetaup3': ['dtbetax', 'dtbetay', 'dtbetaz'],
    'gdown4': ['gtt', 'gtx', 'gty', 'gtz', 'gdet', 'gup4'],
    'Momentumx': ['Momentumy', 'Momentumz', 'Momentumup3', 'Momentumdown3',
                  'Momentumx_norm', 'Momentumdownx'],
    'rho': ['rho0', 'eps', 'enthalpy', 'conserved_D', 'conserved_E'],
    'rho0': ['rho', 'eps', 'enthalpy'],
    'Tdown4': ['Ttrace', 'st_Ricci_down4', 'st_Ricci_down3', 'rho_n',
               'press_n', 'Tup4'],
    'st_Riemann_down4': ['st_Weyl_down4', 'st_Riemann_uddd4', 'Kretschmann',
                         'st_Ricci_down4', 'eweyl_u_down4', 'Weyl_Psi'],
    'st_Ricci_down4': ['st_Ricci_down3', 'st_RicciS', 'Einsteindown4',
                       'st_Riemann_down4', 'st_Weyl_down4'],
    's_Riemann_down3': ['s_Ricci_down3', 's_RicciS', 's_Riemann_uddd3',
                        'Hamiltonian'],
    'Weyl_Psi4r': ['Weyl_Psi', 'Weyl_invariants'],
    'betax': ['betaup3', 'betay', 'betaz'],
}


def neighbourhood(guard):
    sc = scan_core()
    out = {guard}
    testers = [m for m, gs in sc['guards'].items() if guard in gs]
    out |= set(testers)
    for m in testers:
        out |= set(sc['callers'].get(m, []))
        out |= set(sc['deps'].get(m, []))
    out |= set(SIBLINGS.get(guard, []))
    return sorted(k for k in out if k in sc['keys'])


# ---------------------------------------------------------------------------
# monitored subclass
# ---------------------------------------------------------------------------

_MON = {}
GETSIZE_CALLS = [0]


class InjectedAllocFailure(MemoryError):
    """Simulated failed allocation at the start of the n-th (possibly nested)
    computation of a request.  What was computed and cached before it stays,
    the request fails, the caller carries on with other requests."""


class _NpProxy:
    """Stands for the name `np` inside aurel.core: counts einsum calls and can
    make the n-th one fail like a failed allocation.  Everything else is
    numpy itself."""

    def __init__(self, real):
        self._real = real
        self.count = 0
        self.fail_at = None
        self.fired = None

    def einsum(self, *a, **k):
        self.count += 1
        if self.fail_at is not None and self.count == self.fail_at:
            self.fail_at = None
            self.fired = self.count
            raise InjectedAllocFailure(
                f'simulated allocation failure in einsum call #{self.count} '
                f'({a[0] if a else ""})')
        return self._real.einsum(*a, **k)

    def __getattr__(self, name):
        return getattr(self._real, name)


class _CallFault:
    """sys.settrace seam: the n-th call of a Python function defined inside
    the aurel package fails at its entry (failed allocation of its frame /
    first array).  One-shot; counting only when at is None."""

    def __init__(self, at=None):
        self.at = at
        self.count = 0
        self.fired = None

    def __call__(self, frame, event, arg):
        if event == 'call' and '/aurel/' in frame.f_code.co_filename:
            self.count += 1
            if self.at is not None and self.count == self.at:
                self.at = None
                self.fired = (self.count, frame.f_code.co_name)
                raise InjectedAllocFailure(
                    f'simulated allocation failure entering '
                    f'{frame.f_code.co_name} (call #{self.count})')
        return None


def _twin(rel):
    """A throw-away instance in the same cache state (arrays shared)."""
    import copy
    t = copy.copy(rel)
    t.data = dict(rel.data)
    t.last_accessed = dict(rel.last_accessed)
    t.var_importance = dict(rel.var_importance)
    t._m = {k: (type(v)() if isinstance(v, (set, list)) else
                (0 if isinstance(v, int) else None))
            for k, v in rel._m.items()}
    return t


def _count_units(rel, key, kind):
    """How many fault points of `kind` the request has in this cache state
    (dry run on a twin; nothing of `rel` changes)."""
    import sys
    t = _twin(rel)
    npx = _MON['np']
    if kind == 'einsum':
        c0 = npx.count
        try:
            t[key]
        except Exception:  # noqa: BLE001
            pass
        return npx.count - c0
    if kind == 'call':
        cf = _CallFault(None)
        sys.settrace(cf)
        try:
            t[key]
        except Exception:  # noqa: BLE001
            pass
        finally:
            sys.settrace(None)
        return cf.count
    t._m['fail_at'] = 10 ** 9
    t._m['fail_count'] = 0
    try:
        t[key]
    except Exception:  # noqa: BLE001
        pass
    return t._m['fail_count']


def faulty_get(rel, key, spec):
    """rel[key] with one injected failure.  spec: {'kind': 'getitem' | 'call'
    | 'einsum', 'at': n} or {..., 'from_end': k} (k-th last fault point of
    the request in the present cache state).  Returns (value, info)."""
    import sys
    kind = spec.get('kind', 'getitem')
    at = spec.get('at')
    total = None
    if at is None:
        total = _count_units(rel, key, kind)
        at = max(1, total - spec['from_end'] + 1)
    m = rel._m
    info = {'kind': kind, 'at': at, 'total': total}
    npx = _MON['np']
    try:
        if kind == 'einsum':
            npx.count = 0
            npx.fail_at = at
            npx.fired = None
            return rel[key], info
        if kind == 'call':
            cf = _CallFault(at)
            sys.settrace(cf)
            try:
                return rel[key], info
            finally:
                sys.settrace(None)
        m['fail_at'] = at
        m['fail_count'] = 0
        m['failed_key'] = None
        return rel[key], info
    finally:
        npx.fail_at = None
        m['fail_at'] = None


def monitored_class():
    if 'cls' in _MON:
        return _MON['cls']
    import aurel.core as core
    import numpy as _numpy
    _MON['np'] = _NpProxy(_numpy)
    core.np = _MON['np']
    orig_get_size = core.get_size

    def counting_get_size(obj):
        GETSIZE_CALLS[0] += 1
        return orig_get_size(obj)
    core.get_size = counting_get_size

    class MonitoredAurelCore(core.AurelCore):
        """Observes; never changes what the real methods do."""

        def __init__(self, fd, **kw):
            self._m = {'depth': 0, 'touched': set(), 'evicted': [],
                       'cleanups': 0, 'regular': 0, 'memloop_evictions': 0,
                       'nested_evictions': 0, 'cleanup_error': None,
                       'getsize_excess': None, 'hits': 0, 'misses': 0,
                       'bookkeeping': None, 'fail_at': None,
                       'fail_count': 0, 'failed_key': None,
                       'fail_depth': 0, 'fault_info': None}
            super().__init__(fd, **kw)

        def __getitem__(self, key):
            m = self._m
            m['touched'].add(key)
            if key in self.data:
                m['hits'] += 1
            else:
                m['misses'] += 1
                if m['fail_at'] is not None:
                    fn = getattr(type(self), key, None)
                    code = getattr(fn, '__code__', None)
                    if code is not None and code.co_argcount == 1:
                        m['fail_count'] += 1
                        if m['fail_count'] >= m['fail_at']:
                            m['fail_at'] = None
                            m['failed_key'] = key
                            m['fail_depth'] = m['depth']
                            raise InjectedAllocFailure(
                                f'simulated allocation failure computing '
                                f'{key!r}')
            m['depth'] += 1
            try:
                return super().__getitem__(key)
            finally:
                m['depth'] -= 1

        def cleanup_cache(self):
            m = self._m
            before = list(self.data.keys())
            n = len(before)
            c0 = GETSIZE_CALLS[0]
            try:
                super().cleanup_cache()
            except InjectedAllocFailure:
                raise          # the simulator's own fault, not the SUT's
            except BaseException as e:
                m['cleanup_error'] = f'{type(e).__name__}: {e}'
                raise
            calls = GETSIZE_CALLS[0] - c0
            m['cleanups'] += 1
            if self.calculation_count % self.clear_cache_every_nbr_calc == 0:
                m['regular'] += 1
            removed = [k for k in before if k not in self.data]
            if removed and (self.calculation_count
                            % self.clear_cache_every_nbr_calc != 0):
                m['memloop_evictions'] += len(removed)
            for k in removed:
                m['evicted'].append(k)
                if m['depth'] > 1:
                    m['nested_evictions'] += 1
            if calls > (n + 2) ** 2:
                m['getsize_excess'] = (calls, n)
            la = set(self.last_accessed) - set(self.data)
            if la:
                m['bookkeeping'] = sorted(la)

    _MON['cls'] = MonitoredAurelCore
    return MonitoredAurelCore


# ---------------------------------------------------------------------------
# fast checksum + registry (C02)
# ---------------------------------------------------------------------------

def checksum(a):
    a = np.ascontiguousarray(a)
    if a.dtype.itemsize % 8 == 0 and a.dtype.kind in 'fciu':
        u = a.reshape(-1).view(np.uint64)
        w = (np.arange(u.size, dtype=np.uint64) * np.uint64(2654435761)
             + np.uint64(1)) | np.uint64(1)
        with np.errstate(over='ignore'):
            return (int(u.sum(dtype=np.uint64)),
                    int((u * w).sum(dtype=np.uint64)))
    return (zlib.crc32(a.tobytes()), a.size)


class Registry:
    """Every array the user supplied or a request returned, with checksum."""

    def __init__(self, readonly=True):
        self.items = []
        self.seen = set()
        self.readonly = readonly

    def add(self, name, value):
        for p, x in compare.leaves(value):
            if isinstance(x, np.ndarray) and id(x) not in self.seen \
                    and x.size:
                self.seen.add(id(x))
                if self.readonly:
                    try:
                        x.flags.writeable = False
                    except ValueError:
                        pass
                self.items.append((name + p, x, checksum(x)))

    def changed(self):
        return [(n, x) for n, x, c in self.items if checksum(x) != c]


# ---------------------------------------------------------------------------
# configuration
# ---------------------------------------------------------------------------

KNOB_PERIODS = [1, 1, 2, 3, 5, 7, 20]
KNOB_SCALARS = [1, 3, 10, 40, None]      # None -> 4 GB (default)


def gen_config(rng, profile='C01'):
    g = rng.child('coreconfig')
    cls = g.weighted({'C01': [('HOM', 3), ('ON', 2), ('OFF', 5)],
                      'C02': [('HOM', 3), ('ON', 2), ('OFF', 5)],
                      'C03': [('HOM', 3), ('OFF', 6), ('ON', 1)],
                      'C10': [('HOM', 4), ('ON', 4), ('KASNER', 2)],
                      'C14': [('HOM', 5), ('OFF', 5)]}[profile])
    if cls == 'ON':
        order = g.pick([6, 8])
        boundary = 'no boundary'
    else:
        order = g.weighted([(2, 3), (4, 4), (6, 1), (8, 1)])
        boundary = g.weighted([('no boundary', 4), ('periodic', 2),
                               ('symmetric', 1)])
    param = st.gen_grid(g, order, boundary, small=(cls != 'ON'))
    cfg = {'cls': cls, 'fd_order': order, 'boundary': boundary,
           'param': param}
    cfg['Lambda'] = g.pick([0.0, 0.0, 0.3, -0.2])
    cfg['interp_method'] = g.weighted([('linear', 6), ('nearest', 1),
                                       ('cubic', 2)])
    cfg['tetrad'] = g.weighted([('quasi-Kinnersley', 3), ('other', 2)]) \
        if profile != 'C02' else g.pick(['quasi-Kinnersley', 'other'])
    cfg['vacuum'] = False
    variant = g.weighted([('generic', 6), ('zero_shift', 2),
                          ('betax_zero', 2), ('only_betay', 1)])
    weak = cls == 'HOM' and g.chance(0.08)
    if weak:
        cfg['Lambda'] = 0.0
    if cls in ('HOM', 'ON'):
        for _ in range(50):
            spec = st.gen_metric_spec(g, cls, param)
            for m in spec['modes']:
                if variant == 'zero_shift':
                    for a in range(1, 4):
                        m['A'][0][a] = m['A'][a][0] = 0.0
                if variant == 'betax_zero':
                    m['A'][0][1] = m['A'][1][0] = 0.0
                    for (a, b) in ((1, 2), (1, 3), (2, 3)):
                        m['A'][a][b] = m['A'][b][a] = 0.0
                if variant == 'only_betay':
                    m['A'][0][1] = m['A'][1][0] = 0.0
                    m['A'][0][3] = m['A'][3][0] = 0.0
                    for (a, b) in ((1, 2), (1, 3), (2, 3)):
                        m['A'][a][b] = m['A'][b][a] = 0.0
                if weak:
                    # weakly curved data (|R_ab| << 1e-8): absolute
                    # tolerances must not decide anything
                    m['A'] = [[1e-7 * x for x in row] for row in m['A']]
            gm, _, _ = st.eval_metric(spec, param)
            if st.admissible(gm):
                break
        cfg['spec'] = spec
        cfg['variant'] = variant
        cfg['weak_field'] = bool(weak)
    elif cls == 'KASNER':
        u = g.uniform(1.0, 3.0)
        den = 1 + u + u * u
        cfg['spec'] = {'p': [-u / den, (1 + u) / den, u * (1 + u) / den],
                       't0': g.uniform(0.8, 2.0)}
        cfg['variant'] = 'kasner'
        cfg['Lambda'] = 0.0
        cfg['vacuum'] = g.chance(0.6)
    else:
        h = max(param['dx'], param['dy'], param['dz'])
        cfg['spec'] = {'npseed': g.randrange(1 << 30),
                       'kmax': g.pick([0.3, 1.0, 2.0]) / max(h, 0.25),
                       'rho0_zero_region': g.chance(0.5)}
        cfg['variant'] = 'off'
        cfg['fluid'] = g.subset(['rho0', 'eps', 'press', 'w_lorentz',
                                 'velx', 'vely', 'velz'], 0.2, 0.9)
        if g.chance(0.25):
            cfg['fluid'] = []
        # "any key can be supplied": the energy density instead of (or next
        # to) rest-mass density / internal energy; a stress-energy tensor or
        # Psi4 given directly
        cfg['fluid_alt'] = g.weighted([('none', 6), ('rho+eps', 1),
                                       ('rho+rho0', 1), ('rho', 1)])
        cfg['extra_inputs'] = g.subset(['Tdown4', 'Weyl_Psi4', 'uup4'],
                                       0.0, 0.5) if g.chance(0.3) else []
        cfg['psi4_excised'] = g.chance(0.5)
        cfg['metric_inputs'] = g.subset(
            ['alpha', 'dtalpha', 'betaup3', 'dtbetaup3', 'gammadown3',
             'Kdown3'], 0.5, 1.0, nonempty=True)
    how = {}
    for k in ('gammadown3', 'Kdown3', 'betaup3', 'dtbetaup3'):
        how[k] = g.weighted([('tensor', 4), ('components', 3), ('both', 1)])
    cfg['how'] = how
    cfg['give_gdown4'] = cls in ('HOM', 'ON') and g.chance(0.2)
    # inputs that may be omitted because their true value is the default
    omit = []
    if cls in ('HOM', 'ON') and variant == 'zero_shift' and g.chance(0.6):
        omit += ['betaup3', 'dtbetaup3']
    if cls in ('HOM', 'ON') and variant == 'betax_zero' and g.chance(0.7):
        how['betaup3'] = 'components'
        how['dtbetaup3'] = 'components'
        omit += ['betax', 'dtbetax']
    if cls in ('HOM', 'ON') and variant == 'only_betay':
        how['betaup3'] = 'components'
        how['dtbetaup3'] = 'components'
        omit += ['betax', 'dtbetax', 'betaz', 'dtbetaz']
    if cls == 'KASNER':
        omit += ['betaup3', 'dtbetaup3', 'alpha', 'dtalpha']
        if cfg['vacuum'] or g.chance(0.5):
            omit += ['Tdown4']
    cfg['omit'] = omit
    cfg['freeze'] = g.weighted([('freeze_data', 3), ('load_data', 1)])
    cfg['hand_assigned'] = (g.subset(
        ['alpha', 'Kdown3', 'gammadown3', 'betaup3', 'rho0', 'press', 'gxx',
         'kxx', 'dtalpha', 'Tdown4'], 0.1, 0.5)
        if cfg['freeze'] == 'load_data' and g.chance(0.4) else [])
    # inputs supplied only after the caller has looked at their default
    cfg['late_inputs'] = (g.subset(
        ['Kdown3', 'alpha', 'dtalpha', 'betaup3', 'dtbetaup3', 'rho0',
         'press', 'eps', 'Tdown4', 'gammadown3'], 0.1, 0.4)
        if cfg['freeze'] == 'freeze_data' and g.chance(
            {'C03': 0.3}.get(profile, 0.12)) else [])
    cfg['peek'] = (g.subset(['alpha', 'gxx', 'gammadown3', 'Kdown3', 'kxx',
                             'betaup3', 'betax', 'Tdown4', 'rho0', 'dtalpha'],
                            0.1, 0.6) if g.chance(0.3) else [])
    # cache knobs (the fault space)
    pressure = g.weighted({'C03': [('max', 6), ('mid', 3), ('default', 1)],
                           }.get(profile, [('max', 4), ('mid', 3),
                                           ('default', 3)]))
    if pressure == 'default':
        cfg['period'], cfg['mem_scalars'] = 20, None
    elif pressure == 'mid':
        cfg['period'] = g.pick([3, 5, 7])
        cfg['mem_scalars'] = g.pick([40, 200, None])
    else:
        cfg['period'] = g.pick([1, 1, 2, 3])
        cfg['mem_scalars'] = g.pick([1, 3, 10, 40, None])
    cfg['pressure'] = pressure
    return cfg


def kasner_metric(spec, param):
    X, _, _ = st.coords(param)
    t = spec['t0']
    shp = X.shape
    g = np.zeros((4, 4) + shp)
    dg = np.zeros((4, 4, 4) + shp)
    ddg = np.zeros((4, 4, 4, 4) + shp)
    g[0, 0] = -1.0
    for i, p in enumerate(spec['p']):
        g[i + 1, i + 1] = t ** (2 * p)
        dg[0, i + 1, i + 1] = 2 * p * t ** (2 * p - 1)
        ddg[0, 0, i + 1, i + 1] = 2 * p * (2 * p - 1) * t ** (2 * p - 2)
    return g, dg, ddg


class World:
    """Inputs + exact reference for one configuration."""

    def __init__(self, cfg):
        self.cfg = cfg
        cls = cfg['cls']
        p = cfg['param']
        self.exact = None
        if cls in ('HOM', 'ON'):
            inputs, ex = st.exact_inputs(cfg['spec'], p, cfg['Lambda'])
            self.exact = ex
        elif cls == 'KASNER':
            g, dg, ddg = kasner_metric(cfg['spec'], p)
            cur = refgr.curvature(g, dg, ddg, 0.0)
            s31 = refgr.split31(g, dg)
            inputs = {'alpha': s31['alpha'], 'dtalpha': s31['dtalpha'],
                      'betaup3': s31['betaup3'],
                      'dtbetaup3': s31['dtbetaup3'],
                      'gammadown3': s31['gammadown3'],
                      'Kdown3': s31['Kdown3'],
                      'Tdown4': np.zeros_like(cur['Tdown4'])}
            self.exact = {'g': g, 'cur': cur, 's31': s31}
        else:
            inputs, fluid = st.off_inputs(cfg['spec'], p)
            inputs = {k: v for k, v in inputs.items()
                      if k in cfg['metric_inputs']}
            for k in cfg['fluid']:
                inputs[k] = fluid[k]
            alt = cfg.get('fluid_alt', 'none')
            if alt != 'none':
                for k in ('rho0', 'eps'):
                    inputs.pop(k, None)
                rho = fluid['rho0'] * (1 + fluid['eps'])
                inputs['rho'] = rho
                if alt == 'rho+eps':
                    inputs['eps'] = fluid['eps']
                elif alt == 'rho+rho0':
                    inputs['rho0'] = fluid['rho0']
            X, Y, Z = st.coords(p)
            if 'Tdown4' in cfg.get('extra_inputs', []):
                T = np.zeros((4, 4) + X.shape)
                for a in range(4):
                    for b in range(a, 4):
                        T[a, b] = T[b, a] = 0.02 * np.sin(
                            0.3 * X + 0.1 * (a + 1) * Y - 0.2 * (b + 1) * Z) \
                            + (0.5 if a == b else 0.0)
                inputs['Tdown4'] = T
            if 'uup4' in cfg.get('extra_inputs', []):
                # a user-supplied 4-velocity (close to, not exactly, unit)
                inputs['uup4'] = np.array([
                    1.05 + 0.02 * np.sin(0.2 * X), 0.1 * np.cos(0.3 * Y),
                    0.05 * np.sin(0.1 * Z + 0.2 * X), 0.02 + 0.0 * X])
            if 'Weyl_Psi4' in cfg.get('extra_inputs', []):
                inputs['Weyl_Psi4r'] = 0.01 * np.cos(0.2 * X - 0.3 * Y)
                inputs['Weyl_Psi4i'] = 0.01 * np.sin(0.1 * Z + 0.2 * X)
                if cfg.get('psi4_excised'):
                    # an excised grid point, as analysis codes mark them
                    inputs['Weyl_Psi4r'][0, 0, 0] = np.nan
                    inputs['Weyl_Psi4i'][0, 0, 0] = np.nan
        if cfg.get('give_gdown4') and self.exact is not None:
            inputs = dict(inputs)
            inputs['gdown4'] = np.array(self.exact['g'])   # redundant, exact
        self.raw = inputs
        data = st.present(inputs, cfg['how'])
        for k in cfg['omit']:
            data.pop(k, None)
            for c in st.COMPONENTS.get(k, []):
                data.pop(c, None)
        self.data = data
        self.scale = 1.0
        if self.exact is not None:
            self.scale = max(1e-6, float(np.max(np.abs(
                self.exact['cur']['Riemann_down4']))))
        self.h = min(p['dx'], p['dy'], p['dz'])

    def make(self, knobs=True, perturb=None, fd=None):
        import aurel
        cfg = self.cfg
        if fd is None:
            fd = aurel.FiniteDifference(cfg['param'],
                                        boundary=cfg['boundary'],
                                        fd_order=cfg['fd_order'],
                                        verbose=False)
        if fd.x.shape != (cfg['param']['Nx'], cfg['param']['Ny'],
                          cfg['param']['Nz']):
            raise AssertionError('grid parameters do not give the grid')
        kw = dict(verbose=False, Lambda=cfg['Lambda'], vacuum=cfg['vacuum'],
                  tetrad=cfg['tetrad'])
        # extraction sphere well inside the grid (the default one is centred
        # on the origin, which most generated grids do not contain)
        p_ = cfg['param']
        half = [0.5 * (p_[n] - 1) * p_[d] for n, d in
                (('Nx', 'dx'), ('Ny', 'dy'), ('Nz', 'dz'))]
        kw['center'] = (p_['xmin'] + half[0], p_['ymin'] + half[1],
                        p_['zmin'] + half[2])
        kw['extract_radii'] = [0.6 * min(half)]
        kw['lmax'] = 2
        kw['interp_method'] = cfg.get('interp_method', 'linear')
        if knobs:
            kw['clear_cache_every_nbr_calc'] = cfg['period']
            if cfg['mem_scalars'] is not None:
                sb = (cfg['param']['Nx'] * cfg['param']['Ny']
                      * cfg['param']['Nz'] * 8)
                kw['memory_threshold_inGB'] = cfg['mem_scalars'] * sb / 2**30
        else:
            kw['clear_cache_every_nbr_calc'] = NEVER
            kw['memory_threshold_inGB'] = NEVER
        rel = monitored_class()(fd, **kw)
        arrays = {}
        for k in sorted(self.data):
            v = np.array(self.data[k])
            if perturb is not None:
                v = v * (1.0 + 1e-15 * perturb.uniform(-1, 1, v.shape))
            arrays[k] = v
        if cfg['freeze'] == 'load_data':
            # some inputs may have been assigned by hand before; load_data
            # (the only freezing call then) freezes everything in data
            hand = [k for k in cfg.get('hand_assigned', []) if k in arrays]
            for k in hand:
                rel.data[k] = arrays[k]
            rel.load_data({k: [None, v] for k, v in arrays.items()
                           if k not in hand}, 1)
        else:
            late = [k for k in cfg.get('late_inputs', []) if k in arrays] \
                if knobs else []
            for k, v in arrays.items():
                if k not in late:
                    rel.data[k] = v
            # a user may look at inputs before freezing them
            for k in cfg.get('peek', []):
                if k in rel.data:
                    rel[k]
            rel.freeze_data()
            # ... or notice that an input is still missing: look at it (aurel
            # works out its default), then supply it and freeze again.  Only
            # where working out the default caches nothing but that key
            # (anything else would be the caller's own stale state).
            self.late_done = []
            for k in late:
                before = set(rel.data)
                try:
                    rel[k]
                except Exception:  # noqa: BLE001
                    pass
                extra = set(rel.data) - before - {k}
                for x in extra:            # undo: not a legitimate variant
                    del rel.data[x]
                    rel.last_accessed.pop(x, None)
                if not extra:
                    self.late_done.append(k)
                rel.data[k] = arrays[k]
                rel.freeze_data()
        return rel, arrays

    # deterministic argument fields for helper ops
    def argfield(self, kind):
        d = self.raw
        shp = (self.cfg['param']['Nx'], self.cfg['param']['Ny'],
               self.cfg['param']['Nz'])
        X, Y, Z = st.coords(self.cfg['param'])
        s = 1.0 + 0.1 * np.sin(0.3 * X + 0.2 * Y - 0.1 * Z)
        if kind == 'scalar':
            return np.array(d.get('alpha', s)) * s
        if kind == 'vec3':
            return np.array(d.get('betaup3', np.array([s, 0.5 * s, -s]))) + \
                np.array([0.1 * s, 0.2 * s, 0.3 * s])
        if kind == 't2':
            return np.array(d.get('Kdown3', np.zeros((3, 3) + shp))) + \
                np.array(d.get('gammadown3', np.zeros((3, 3) + shp))) * s
        if kind == 'vec4':
            v = self.argfield('vec3')
            return np.array([s, v[0], v[1], v[2]])
        if kind == 't2_4':
            out = np.zeros((4, 4) + shp)
            out[1:, 1:] = self.argfield('t2')
            out[0, 0] = -s
            return out
        raise KeyError(kind)


HELPER_SPECS = []
for _idx, _k in (('', 'scalar'), ('u', 'vec3'), ('d', 'vec3'),
                 ('uu', 't2'), ('dd', 't2'), ('ud', 't2'), ('du', 't2')):
    HELPER_SPECS.append(('s_covd', [_k], {'indexing': _idx}))
for _idx, _k in (('u', 'vec3'), ('d', 'vec3'), ('uu', 't2'), ('ud', 't2'),
                 ('du', 't2'), ('dd', 't2')):
    HELPER_SPECS.append(('s_div', [_k], {'indexing': _idx}))
HELPER_SPECS.append(('s_curl', ['t2'], {'indexing': 'dd'}))
for _idx, _k in (('', 'scalar'), ('s_u', 'vec3'), ('st_u', 'vec4'),
                 ('s_d', 'vec3'), ('st_d', 'vec4'), ('s_uu', 't2'),
                 ('s_ud', 't2'), ('s_du', 't2'), ('s_dd', 't2')):
    for _w in (0, 1 / 6, -2 / 3):
        HELPER_SPECS.append(('Lie_beta', [_k], {'indexing': _idx,
                                                'weight': _w}))
for _n, _k in (('trace3', 't2'), ('tracefree3', 't2'), ('magnitude3', 't2'),
               ('trace4', 't2_4'), ('magnitude4', 't2_4'), ('norm3', 'vec3'),
               ('norm4', 'vec4'), ('s_to_st', 't2')):
    HELPER_SPECS.append((_n, [_k], {}))
for _n in ('tetrad_base', 'null_vector_base', 'levicivita_down3',
           'levicivita_down4'):
    HELPER_SPECS.append((_n, [], {}))
HELPER_SPECS.append(('st_covd', ['scalar', 'scalar'], {'indexing': ''}))
HELPER_SPECS.append(('st_covd', ['vec4', 'vec4'], {'indexing': 'u'}))
HELPER_SPECS.append(('st_covd', ['vec4', 'vec4'], {'indexing': 'd'}))

SKIP_KEYS = set()       # Psi4_lm: World.make puts its sphere inside the grid


def gen_ops(rng, cfg, profile='C01', nmax=24):
    sc = scan_core()
    g = rng.child('coreops')
    keys = [k for k in sc['keys'] if k not in SKIP_KEYS]
    all_guards = sorted({x for gs in sc['guards'].values() for x in gs})
    foci = g.sample(all_guards, g.randint(1, 3))
    if profile == 'C10':
        foci = ['st_Riemann_down4'] + foci[:1]
    hood = sorted({k for f in foci for k in neighbourhood(f)})
    n = g.randint(2, nmax) if g.chance(0.6) else g.randint(2, 8)
    ops = []
    requested = []
    for _ in range(n):
        r = g.random()
        if r < {'C03': 0.10, 'C01': 0.03}.get(profile, 0.02) \
                and cfg.get('freeze') == 'load_data':
            # the documented route again: load (part of) the same data once
            # more, e.g. matter after the metric; nothing frozen may go away
            ops.append({'op': 'LOAD_MORE', 'frac': g.pick([0.3, 0.6, 1.0]),
                        'seed': g.randrange(1 << 30)})
            continue
        if r < 0.08:
            nm, args, kw = g.pick(HELPER_SPECS)
            ops.append({'op': 'HELPER', 'name': nm, 'args': args, 'kw': kw})
            if g.chance(0.5):
                # the same helper again on other temporaries (c * field)
                for _ in range(g.randint(1, 3)):
                    ops.append({'op': 'HELPER', 'name': nm, 'args': args,
                                'kw': kw, 'scale': g.pick([2.0, -0.5, 3.0,
                                                           0.25]),
                                'temporary': profile != 'C02'})
                ops[-g.randint(1, 2)]['temporary'] = profile != 'C02'
            continue
        if r < 0.14 and profile == 'C03':
            # a run-time option changed on the live object between requests
            # (as the example notebook does with rel.tetrad): nothing frozen
            # may go away
            ops.append({'op': 'SET_OPTION', 'name': g.pick(
                ['tetrad', 'tetrad', 'lmax', 'interp_method', 'Lambda']),
                'i': g.randrange(4)})
            continue
        if r < 0.11 and profile in ('C01', 'C02', 'C10'):
            # another AurelCore object in the same process, same grid,
            # another spacetime, asked something in between
            ops.append({'op': 'OTHER', 'key': g.pick(
                ['st_Riemann_down4', 'Kretschmann', 's_Ricci_down3',
                 'Hamiltonian', 'st_Weyl_down4', 'gammaup3', 'Weyl_Psi',
                 's_Gamma_udd3', 'Ktrace'] + [g.pick(keys)])})
            continue
        if False:
            pass
        elif r < 0.16 and requested:
            ops.append({'op': 'SET_IMPORTANCE', 'key': g.pick(
                requested + hood), 'w': g.pick([0, 0.002, 0.1, 1, 10, 100])})
        else:
            rr = g.random()
            last = requested[-1] if requested else None
            cons = sc['consumers'].get(last, []) if last else []
            dps = [d for d in sc['deps'].get(last, []) if d in keys] \
                if last else []
            pc = 0.35 if profile == 'C02' else 0.12
            if (profile == 'C02' and ops and ops[-1]['op'] == 'TOUCH_ALL'
                    and g.chance(0.5)):
                k = g.pick([d for d in sc['deep'] if d not in SKIP_KEYS])
            elif rr < pc and cons:
                k = g.pick(cons)          # consumes what was just handed out
            elif rr < pc + 0.12 and dps:
                k = g.pick(dps)           # what the last request consumed
            elif rr < pc + 0.3 and requested:
                k = g.pick(requested)              # hit: refresh its age
            elif rr < 0.8 and hood:
                k = g.pick(hood)
            else:
                k = g.pick(keys)
            ops.append({'op': 'GET', 'key': k})
            if g.chance({'C10': 0.15}.get(profile, 0.07)):
                # fault: one allocation inside this request fails - at the
                # start of the n-th (nested) computation, at the n-th call of
                # an aurel function, or in the n-th einsum; counted from the
                # start or from the end of the request.  The caller carries
                # on afterwards.
                kind = g.weighted([('getitem', 3), ('call', 3),
                                   ('einsum', 4)])
                if g.chance(0.5):
                    ops[-1]['fault'] = {'kind': kind, 'from_end': g.weighted(
                        [(1, 3), (2, 3), (3, 2), (4, 1), (6, 1), (10, 1)])}
                else:
                    ops[-1]['fault'] = {'kind': kind, 'at': g.weighted(
                        [(1, 2), (2, 3), (3, 3), (5, 2), (9, 1), (20, 1)])}
            requested.append(k)
            if profile == 'C02' and g.chance(0.35):
                ops.append({'op': 'TOUCH_ALL'})
    if 'Weyl_Psi4' in cfg.get('extra_inputs', []) and g.chance(0.6):
        # a supplied Psi4 (possibly with an excised point): the scalars are
        # handed out, then the mode decomposition interpolates them
        at = g.randint(0, len(ops))
        ops[at:at] = [{'op': 'GET', 'key': 'Weyl_Psi'},
                      {'op': 'GET', 'key': 'Psi4_lm'}]
    if g.chance({'C01': 0.5, 'C02': 0.3, 'C03': 0.3}.get(profile, 0.0)):
        ops.append({'op': 'AUDIT', 'n': g.randint(4, 14),
                    'seed': g.randrange(1 << 30)})
    if profile == 'C02' and cfg.get('freeze') == 'load_data' \
            and g.chance(0.5):
        # at the end: the same object is given another time step through
        # load_data; the arrays of the first one (the caller's) and whatever
        # was handed out must stay as they are
        ops.append({'op': 'LOAD_OTHER'})
    return ops, foci


# ---------------------------------------------------------------------------
# execution
# ---------------------------------------------------------------------------

def perform(rel, world, op, reg=None):
    if op['op'] == 'GET':
        if op.get('fault') and reg is not None:   # never in the reference
            val, info = faulty_get(rel, op['key'], op['fault'])
            rel._m['fault_info'] = info
            return val
        return rel[op['key']]
    if op['op'] == 'HELPER':
        # (a scaled copy: helper arguments are usually temporaries such as
        # c * v, which die after the call unless somebody keeps them)
        args = [world.argfield(k) * op.get('scale', 1.0) for k in op['args']]
        if reg is not None and not op.get('temporary'):
            # user-supplied arrays the caller keeps: monitored by C02
            for n, a in enumerate(args):
                reg.add(f"argument {n} of {op['name']}", a)
        kw = dict(op['kw'])
        fn = getattr(rel, op['name'])
        if 'indexing' in kw:
            idx = kw.pop('indexing')
            return fn(*args, idx, **kw), args
        return fn(*args, **kw), args
    raise KeyError(op['op'])


def exc_site(e):
    site, line = 'outside_aurel', ''
    for fr in traceback.extract_tb(e.__traceback__):
        if '/aurel/' in fr.filename.replace('\\', '/'):
            site, line = fr.name, (fr.line or '').strip()
    return site, line


class Engine:
    def __init__(self, run, profile='C01', props=None):
        self.props = props          # stop a run only at violations of these
        self.run = run
        self.cfg = run['config']
        self.world = World(self.cfg)
        self.profile = profile
        self.fresh_memo = {}
        self.tr = Trace()
        self.viol = []
        self.faults, self.probes = {}, {}
        self.vacuous = self.inconclusive = self.skipped_phys = 0
        self.compared = 0
        self.calc_ticks = 0
        self.ageless_ok = set()

    def probe(self, k, n=1):
        self.probes[k] = self.probes.get(k, 0) + n

    def fault(self, k, n=1):
        self.faults[k] = self.faults.get(k, 0) + n
        self.probe(k, n)

    def _stop(self):
        return any(self.props is None or v['prop'] in self.props
                   for v in self.viol)

    # ---- reference model ---------------------------------------------------
    def opkey(self, op):
        if op['op'] == 'GET':
            return op['key']
        return 'H:' + op['name'] + ':' + ','.join(op['args']) + ':' + \
            ','.join(f'{k}={v}' for k, v in sorted(op['kw'].items())) + (
                f"*{op['scale']}" if op.get('scale', 1.0) != 1.0 else '')

    def fresh(self, op, perturb=None):
        ok = self.opkey(op)
        if perturb is None and ok in self.fresh_memo:
            return self.fresh_memo[ok]
        rel, _ = self.world.make(knobs=False, perturb=perturb)
        try:
            v = perform(rel, self.world, op)
            if op['op'] == 'HELPER':
                v = v[0]
            res = ('ok', v, set(rel._m['touched']))
        except Exception as e:  # noqa: BLE001
            res = ('exc', type(e).__name__, set(rel._m['touched']))
        if perturb is None:
            self.fresh_memo[ok] = res
        return res

    def tolerances(self, touched, key):
        cls = self.cfg['cls']
        physical = bool(touched & PHYSICAL_ROOTS) or key in PHYSICAL_ROOTS
        if physical:
            if cls == 'OFF':
                return None
            rtol = 3e-5 if cls == 'ON' else 1e-7
            p = {'Kretschmann': 2, 'Weyl_invariants': 2}.get(key, 1)
            # never below the round-off floor of finite differences of the
            # O(1) background metric (seen on weakly curved data: 2.7e-13 in
            # s_Ricci_down3 of a spatially constant metric with dz = 0.25)
            return rtol, max(rtol * self.world.scale ** p,
                             self.fd_noise()), True
        return 1e-9, 1e-12 * max(1.0, 1.0 / self.world.h ** 2), False

    def fd_noise(self):
        return 1e-12 * max(1.0, 1.0 / self.world.h ** 2)

    # ---- main loop ------------------------------------------------------
    def execute(self, stop_at_first=True, on_op=None):
        cfg = self.cfg
        rel, arrays = self.world.make(knobs=True)
        self.rel = rel
        self.other = None
        if any(o['op'] == 'OTHER' for o in self.run['ops']):
            # a second object of the same session: same grid (in half of the
            # runs the very same FiniteDifference object), another spacetime
            import copy as _copy
            c2 = _copy.deepcopy(cfg)
            if c2['cls'] == 'OFF':
                c2['spec']['npseed'] += 7919
            else:
                c2['spec']['t0'] = c2['spec']['t0'] + 0.37
            c2['late_inputs'] = []
            share = (zlib.crc32(repr(sorted(
                o.get('key', '') for o in self.run['ops'])).encode()) % 2 == 0)
            self.other = World(c2).make(
                knobs=True, fd=rel.fd if share else None)[0]
            if share:
                self.probe('second_object_shares_the_grid_object')
        # C03 wants to SEE a frozen input being altered (checksum oracle I1),
        # so there the read-only flag is not set; everywhere else it is, which
        # names the source line of an in-place write
        reg = Registry(readonly=(self.profile != 'C03'))
        for k, v in arrays.items():
            reg.add(f'input {k!r}', v)
        frozen = {k: (id(v), checksum(v)) for k, v in rel.data.items()}
        frozen_obj = dict(rel.data)
        m = rel._m
        if cfg['omit']:
            self.probe('inputs_omitted_defaults_in_play')
        if getattr(self.world, 'late_done', None):
            self.fault('input_supplied_after_its_default_was_computed',
                       len(self.world.late_done))
        for opi, op in enumerate(self.run['ops']):
            if stop_at_first and self._stop():
                break
            m['touched'] = set()
            ev0 = len(m['evicted'])
            ids_before = {k: id(v) for k, v in rel.data.items()}
            cc0 = rel.calculation_count
            hit = op['op'] == 'GET' and op['key'] in rel.data
            cached_before = set(rel.data)
            if op['op'] == 'LOAD_MORE':
                import random as _r
                ks = sorted(arrays)
                _r.Random(op['seed']).shuffle(ks)
                ks = sorted(ks[:max(1, int(len(ks) * op['frac']))])
                try:
                    rel.load_data({k: [arrays[k]] for k in ks}, 0)
                except Exception as e:  # noqa: BLE001
                    self.viol.append({
                        'prop': 'C03', 'sig': f'load_data:raised:'
                        f'{type(e).__name__}', 'op': opi,
                        'msg': f'op#{opi} load_data of {ks} raised {e}'})
                self.fault('load_data_again')
                self.tr.event('load_more', keys=ks)
                self._c03(rel, m, frozen, frozen_obj, ids_before, [], opi,
                          'LOAD_MORE', ('ok', None))
                continue
            if op['op'] == 'SET_OPTION':
                vals = {'tetrad': ['quasi-Kinnersley', 'other'],
                        'lmax': [2, 3, 4], 'Lambda': [0.0, 0.1, -0.3],
                        'interp_method': ['linear', 'nearest', 'cubic']}[
                            op['name']]
                try:
                    setattr(rel, op['name'], vals[op['i'] % len(vals)])
                except Exception as e:  # noqa: BLE001
                    self.viol.append({
                        'prop': 'C03', 'sig': f'set_option:raised:'
                        f'{type(e).__name__}', 'op': opi,
                        'msg': f'op#{opi} rel.{op["name"]} = ... raised {e}'})
                self.fault('option_changed_on_live_object')
                self.tr.event('set_option', op=op)
                self._c03(rel, m, frozen, frozen_obj, ids_before, [], opi,
                          'SET_OPTION ' + op['name'], ('ok', None))
                continue
            if op['op'] == 'LOAD_OTHER':
                other = {k: [arrays[k], np.array(arrays[k]) * 1.01 + 0.001]
                         for k in sorted(arrays)}
                for k in sorted(other):
                    reg.add(f'second time step of {k!r}', other[k][1])
                try:
                    rel.load_data(other, 1)
                    self.fault('load_data_other_step')
                    rel[self.run['ops'][0].get('key', 'Ktrace')]
                except Exception as e:  # noqa: BLE001
                    if 'read-only' in str(e):
                        site, line = exc_site(e)
                        self.viol.append({
                            'prop': 'C02',
                            'sig': f'mutation:write_in:{site}', 'op': opi,
                            'msg': f'op#{opi} load_data of another time step '
                                   f'wrote in place at {site}: `{line}`'})
                for nm, x in reg.changed():
                    self.viol.append({
                        'prop': 'C02',
                        'sig': f'mutation:changed:{nm.split("[")[0]}',
                        'op': opi,
                        'msg': f'op#{opi} load_data of another time step '
                               f'changed the contents of {nm} in place'})
                self.tr.event('load_other')
                break
            if op['op'] == 'OTHER':
                try:
                    self.other[op['key']]
                except Exception:  # noqa: BLE001 - claims nothing
                    pass
                self.fault('second_object_in_process')
                self.tr.event('other', key=op['key'])
                # whatever the main object handed out must be unchanged
                for nm, x in reg.changed():
                    self.viol.append({
                        'prop': 'C02',
                        'sig': f'mutation:changed:{nm.split("[")[0]}',
                        'op': opi,
                        'msg': f'op#{opi}: a request on ANOTHER AurelCore '
                               f'object changed the contents of {nm} in '
                               f'place'})
                continue
            if op['op'] == 'TOUCH_ALL':
                # the user looks at everything that is cached (pure hits):
                # from now on all of it counts as handed out (C02 registry)
                for k in sorted(rel.data):
                    reg.add(f'cached {k!r} (handed out by TOUCH_ALL op#{opi})',
                            rel[k])
                self.probe('touch_all')
                self.tr.event('touch_all', n=len(rel.data))
                continue
            if op['op'] == 'AUDIT':
                # re-request a seeded sample of what is cached and compare
                # each value with a fresh instance (cache-corruption audit)
                import random as _r
                ks = sorted(k for k in rel.data if k not in self.world.data
                            and k in scan_core()['keys'])
                _r.Random(op['seed']).shuffle(ks)
                for k in ks[:op['n']]:
                    if stop_at_first and self._stop():
                        break
                    if k not in rel.data:
                        continue
                    sub = {'op': 'GET', 'key': k}
                    m['touched'] = set()
                    try:
                        out = ('ok', rel[k])
                    except Exception as e:  # noqa: BLE001
                        out = ('exc', e)
                    self.probe('audited_cached_value')
                    self._c01(sub, opi, f'AUDIT {k}', out, m, [])
                    if out[0] == 'ok':
                        reg.add(f'result of op#{opi} AUDIT {k}', out[1])
                self.tr.event('audit', n=min(op['n'], len(ks)))
                continue
            if op['op'] == 'SET_IMPORTANCE':
                if op['key'] in frozen:
                    continue
                rel.var_importance[op['key']] = op['w']
                if op['w'] == 0 and op['key'] in rel.data:
                    v = rel.data[op['key']]
                    frozen[op['key']] = (id(v), None)
                    frozen_obj[op['key']] = v
                self.fault('importance_override')
                self.tr.event('imp', op=op)
                continue
            try:
                val = perform(rel, self.world, op, reg)
                args = []
                if op['op'] == 'HELPER':
                    val, args = val
                outcome = ('ok', val)
            except Exception as e:  # noqa: BLE001
                outcome = ('exc', e)
            evicted = m['evicted'][ev0:]
            self.calc_ticks = rel.calculation_count
            name = self.opkey(op)
            # probes -------------------------------------------------------
            if hit:
                self.probe('cache_hit_request')
            if evicted:
                self.fault('eviction', len(evicted))
            if m['nested_evictions']:
                self.fault('eviction_during_nested_request',
                           m['nested_evictions'])
                m['nested_evictions'] = 0
            if any(k in frozen for k in evicted):
                pass    # reported by the C03 invariant below
            sc = scan_core()
            for meth in sorted(m['touched'] & set(sc['guards'])):
                for gk in sc['guards'][meth]:
                    if meth in cached_before:
                        continue
                    self.probe(f'guard:{meth}:{gk}:'
                               f'{"T" if gk in cached_before else "F"}')
                    if gk in cached_before and gk not in self.world.data:
                        # guard key cached, is its producer chain gone?
                        self.probe('guard_key_cached_computed')
            self.tr.event('op', op=op, okind=outcome[0],
                          res=(digest(outcome[1]) if outcome[0] == 'ok'
                               else type(outcome[1]).__name__),
                          cache=sorted(rel.data), evicted=evicted)
            injected = (outcome[0] == 'exc'
                        and isinstance(outcome[1], InjectedAllocFailure))
            if injected:
                kind = (op.get('fault') or {}).get('kind', 'getitem')
                self.fault('alloc_failure_injected')
                self.fault(f'alloc_failure:{kind}')
                if cached_before != set(rel.data):
                    self.probe('partial_results_kept_after_failure')
                # a failure between `data[key] = ...` and the age stamp (in
                # the progress message) leaves a correct value without an
                # age; the statement does not cover that point
                self.ageless_ok |= set(rel.data) - set(rel.last_accessed)
            elif op.get('fault') and outcome[0] == 'ok':
                self.probe('fault_armed_but_request_completed')
            # ---------------- C02: mutation monitor ------------------------
            if outcome[0] == 'exc' and 'read-only' in str(outcome[1]):
                site, line = exc_site(outcome[1])
                self.viol.append({
                    'prop': 'C02', 'sig': f'mutation:write_in:{site}',
                    'op': opi,
                    'msg': f'op#{opi} {name}: in-place write into an array '
                           f'that was supplied by the user or handed out '
                           f'earlier, at {site}: `{line}`'})
                continue
            for nm, x in reg.changed():
                self.viol.append({
                    'prop': 'C02', 'sig': f'mutation:changed:{nm.split("[")[0]}',
                    'op': opi,
                    'msg': f'op#{opi} {name} changed the contents of {nm} '
                           f'in place'})
            # ---------------- C03: bookkeeping invariants --------------------
            self._c03(rel, m, frozen, frozen_obj, ids_before, evicted, opi,
                      name, outcome)
            # ---------------- C01: reference model ---------------------------
            if injected:
                # the failed request promises nothing; what it left behind is
                # checked by the invariants above and by every later request
                continue
            self._c01(op, opi, name, outcome, m, evicted)
            if outcome[0] == 'ok':
                reg.add(f'result of op#{opi} {name}', outcome[1])
            if on_op is not None:
                on_op(self, opi, op, outcome)
            # temporaries passed to helpers die here (nothing of the harness
            # keeps them alive), as they do in a caller's loop
            args = val = None
        self.probe('arrays_monitored', len(reg.items))
        self.n_monitored = len(reg.items)
        self.probe('helper_args_monitored', sum(
            1 for n, _, _ in reg.items if n.startswith('argument')))
        if m['memloop_evictions']:
            self.fault('memory_loop_evictions', m['memloop_evictions'])
        self.probe('cleanup_calls', m['cleanups'])
        self.probe('regular_cleanup_fired', m['regular'])
        return rel

    def _c03(self, rel, m, frozen, frozen_obj, ids_before, evicted, opi, name,
             outcome):
        def add(sig, msg):
            self.viol.append({'prop': 'C03', 'sig': sig, 'op': opi,
                              'msg': f'op#{opi} {name}: ' + msg})
        for k, (i, cs) in frozen.items():
            if k not in rel.data:
                add(f'frozen_evicted:{k}', f'frozen entry {k!r} is no longer '
                    f'in data (evicted this op: {evicted})')
            elif id(rel.data[k]) != i:
                add(f'frozen_replaced:{k}', f'frozen entry {k!r} was '
                    'replaced by another object')
            elif cs is not None and checksum(rel.data[k]) != cs:
                add(f'frozen_altered:{k}', f'frozen entry {k!r} changed '
                    'contents')
        # ... and every computed entry that is cached has an age (otherwise it
        # could never be evicted): inputs that were stored directly and never
        # read are the only entries without one
        ageless = sorted(set(rel.data) - set(rel.last_accessed)
                         - set(self.world.data) - set(frozen)
                         - self.ageless_ok)
        if ageless:
            add('cached_entry_without_age', 'cached computed entries '
                f'without an entry in last_accessed: {ageless[:6]}')
        extra = set(rel.last_accessed) - set(rel.data)
        if extra or m['bookkeeping']:
            add('age_table_stale', 'last_accessed has entries that are not '
                f'cached: {sorted(extra) or m["bookkeeping"]}')
            m['bookkeeping'] = None
        if m['cleanup_error']:
            add('cleanup_raised', f'cleanup_cache raised {m["cleanup_error"]}')
            m['cleanup_error'] = None
        if m['getsize_excess']:
            c, n = m['getsize_excess']
            add('cleanup_not_bounded', f'one clean-up made {c} size '
                f'evaluations for {n} entries (bound (n+2)^2)')
            m['getsize_excess'] = None
        for k, i in ids_before.items():
            if k in rel.data and id(rel.data[k]) != i and k not in evicted:
                add(f'entry_replaced:{k}', f'cached entry {k!r} was replaced '
                    'by a different object without having been evicted')

    def _c01(self, op, opi, name, outcome, m, evicted):
        f = self.fresh(op)
        touched = set(m['touched']) | f[2]
        key = op.get('key', op.get('name'))
        if outcome[0] == 'exc':
            en = type(outcome[1]).__name__
            if f[0] == 'exc' and f[1] == en:
                self.vacuous += 1
                return
            site, line = exc_site(outcome[1])
            self.viol.append({
                'prop': 'C01', 'sig': f'outcome:{key}:{en}', 'op': opi,
                'msg': f'op#{opi} {name} raised {en} ({str(outcome[1])[:120]}'
                       f') at {site} `{line}` but a fresh instance returns '
                       f'a value' if f[0] == 'ok' else
                       f'op#{opi} {name} raised {en}, fresh raises {f[1]}'})
            return
        if f[0] == 'exc':
            self.viol.append({
                'prop': 'C01', 'sig': f'outcome:{key}:fresh_{f[1]}',
                'op': opi,
                'msg': f'op#{opi} {name} returned a value but a fresh '
                       f'instance raises {f[1]}'})
            return
        if callable(outcome[1]) and not isinstance(outcome[1], np.ndarray):
            return
        tol = self.tolerances(touched, key)
        if tol is None:
            self.skipped_phys += 1
            return
        rtol, atol, physical = tol
        self.compared += 1
        d = compare.differ(outcome[1], f[1], rtol, atol)
        if d is None:
            return
        # conditioning guard: does round-off in the inputs alone move it?
        pert = np.random.Generator(np.random.PCG64(12345))
        f2 = self.fresh(op, perturb=pert)
        if f2[0] == 'ok':
            d2 = compare.differ(f2[1], f[1], 0.0, 0.0)
            if d2 is not None and d2[2] > 1e-3 * d[2]:
                self.inconclusive += 1
                self.probe('ill_conditioned_comparison')
                return
        cached_guards = sorted(
            gk for meth in touched & set(scan_core()['guards'])
            for gk in scan_core()['guards'][meth])
        self.viol.append({
            'prop': 'C01',
            'sig': f'value:{key}:{"physical" if physical else "algebraic"}',
            'op': opi,
            'msg': f'op#{opi} {name} differs from a fresh instance: {d[1]} '
                   f'[class {self.cfg["cls"]}/{self.cfg.get("variant")}, '
                   f'evicted during this op: {evicted}, guards on the path: '
                   f'{cached_guards[:8]}]'})

    def result(self, props, nontrivial=None):
        viol = [v for v in self.viol if v['prop'] in props]
        cfg = self.cfg
        kinds = [o['op'][0] + (o.get('key') or o.get('name') or '')[:0]
                 for o in self.run['ops']]
        state_sig = digest([cfg['cls'], cfg.get('variant'), cfg['pressure'],
                            cfg['period'], cfg['mem_scalars'],
                            sorted(self.faults), sorted(
                                o.get('key', o.get('name', ''))
                                for o in self.run['ops'])])
        n_ops = len(self.run['ops'])
        return {'violations': viol[:4], 'digest': self.tr.hexdigest(),
                'n_ops': n_ops, 'faults': self.faults, 'probes': self.probes,
                'state_sig': state_sig,
                'nontrivial': (bool(self.faults.get('eviction'))
                               and self.compared > 0
                               and self.vacuous <= 0.3 * n_ops)
                if nontrivial is None else bool(nontrivial),
                'vacuous': self.vacuous, 'inconclusive': self.inconclusive,
                'logical': {'ops': n_ops, 'calc_ticks': self.calc_ticks,
                            'values_compared': self.compared,
                            'physical_skipped_offshell': self.skipped_phys}}
