"""Seed derivation: one integer decides everything (DESIGN 2.1).

run seed   s_i = sha256("aurel|<prop>|<VERIF_SEED>|<i>")[:8 bytes]
child rng  Random(sha256("<s_i>|<label>"))   -- label-split so that adding a
           new draw under one label never shifts the draws of another label.
Nothing in here reads a clock, the pid or the environment.
"""
import hashlib
import random

import numpy as np


def _h(text):
    return int.from_bytes(hashlib.sha256(text.encode()).digest()[:8], 'big')


def run_seed(prop, verif_seed, index):
    return _h(f"aurel|{prop}|{verif_seed}|{index}")


def hash_class(seed, nclasses):
    """PYTHONHASHSEED class of a run: a function of its seed alone."""
    return _h(f"{seed}|hashclass") % nclasses


class Rng(random.Random):
    """random.Random with label-split children and a few helpers."""

    def __init__(self, seed):
        self._seed_int = int(seed)
        super().__init__(self._seed_int)

    def child(self, label):
        return Rng(_h(f"{self._seed_int}|{label}"))

    def np(self, label='np'):
        return np.random.Generator(
            np.random.PCG64(_h(f"{self._seed_int}|{label}")))

    def chance(self, p):
        return self.random() < p

    def pick(self, seq):
        seq = list(seq)
        return seq[self.randrange(len(seq))]

    def subset(self, seq, pmin=0.0, pmax=1.0, nonempty=False):
        seq = list(seq)
        p = self.uniform(pmin, pmax)
        out = [x for x in seq if self.random() < p]
        if nonempty and not out and seq:
            out = [self.pick(seq)]
        return out

    def weighted(self, pairs):
        """pairs: [(item, weight), ...]"""
        tot = sum(w for _, w in pairs)
        x = self.random() * tot
        acc = 0.0
        for item, w in pairs:
            acc += w
            if x < acc:
                return item
        return pairs[-1][0]

    def perm(self, n):
        p = list(range(n))
        self.shuffle(p)
        return p
