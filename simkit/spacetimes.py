"""Spacetime factory for coresim/timesim (DESIGN 3.1).

g_ab(X) = eta_ab + sum_k A^k_ab sin(w^k . X + phi^k),  X = (t, x, y, z)

with closed-form first and second derivatives, so that refgr can make every
generated metric an exact solution (T := (G + Lambda g)/kappa) in an arbitrary
gauge.  Three classes:
  HOM - all modes spatially constant (every finite difference vanishes)
  ON  - inhomogeneous, long wavelength (k h <= ~0.06), on-shell to truncation
  OFF - arbitrary smooth fields that do NOT satisfy the constraints
Everything is a function of a JSON spec, itself drawn from the run's rng.
"""
import numpy as np

from . import refgr

ETA = np.diag([-1.0, 1.0, 1.0, 1.0])


def gen_grid(rng, fd_order, boundary, small=False):
    """Dyadic min/spacing so np.arange gives exactly N points."""
    if boundary == 'no boundary':
        nmin = {2: 3, 4: 6, 6: 9, 8: 12}[fd_order]
    else:
        nmin = fd_order // 2 + 1 + 1
    nmin = max(nmin, 4)
    hi = nmin + (2 if small else 4)
    N = [rng.randint(nmin, hi) for _ in range(3)]
    if N[0] == N[1] == N[2]:
        N[rng.randrange(3)] += 1
    d = rng.pick([0.5, 0.25, 0.125, 1.0])
    dxyz = [d, d * rng.pick([1, 1, 0.5, 2]), d * rng.pick([1, 1, 0.5, 2])]
    mins = [rng.pick([-8, -4, -2, 0, 1, 3]) * dxyz[a] + rng.pick(
        [0, 0, 0.5]) * dxyz[a] for a in range(3)]
    return {'Nx': N[0], 'Ny': N[1], 'Nz': N[2],
            'xmin': mins[0], 'ymin': mins[1], 'zmin': mins[2],
            'dx': dxyz[0], 'dy': dxyz[1], 'dz': dxyz[2]}


def gen_metric_spec(rng, cls, param, vacuum_flat=False):
    """Fourier-mode spec of the 4-metric for class HOM / ON."""
    h = max(param['dx'], param['dy'], param['dz'])
    nm = rng.randint(2, 4)
    modes = []
    for _ in range(nm):
        amp = rng.uniform(0.03, 0.10)
        A = [[0.0] * 4 for _ in range(4)]
        for a in range(4):
            for b in range(a, 4):
                if rng.chance(0.75):
                    v = amp * rng.uniform(-1, 1) * (1.0 if a == b else 0.5)
                    A[a][b] = A[b][a] = v
        wt = rng.uniform(-0.7, 0.7)
        if cls == 'HOM':
            ws = [0.0, 0.0, 0.0]
        else:
            kmax = 0.06 / h
            ws = [rng.uniform(-kmax, kmax) for _ in range(3)]
        modes.append({'A': A, 'w': [wt] + ws, 'phi': rng.uniform(0, 6.28)})
    return {'modes': modes, 't0': rng.uniform(0.0, 2.0)}


def coords(param):
    x = param['xmin'] + param['dx'] * np.arange(param['Nx'])
    y = param['ymin'] + param['dy'] * np.arange(param['Ny'])
    z = param['zmin'] + param['dz'] * np.arange(param['Nz'])
    return np.meshgrid(x, y, z, indexing='ij')


def eval_metric(spec, param, t=None):
    X, Y, Z = coords(param)
    t = spec['t0'] if t is None else t
    shp = X.shape
    g = np.zeros((4, 4) + shp)
    dg = np.zeros((4, 4, 4) + shp)
    ddg = np.zeros((4, 4, 4, 4) + shp)
    for a in range(4):
        g[a, a] = ETA[a, a]
    for m in spec['modes']:
        A = np.array(m['A'])
        w = m['w']
        ph = w[0] * t + w[1] * X + w[2] * Y + w[3] * Z + m['phi']
        s, c = np.sin(ph), np.cos(ph)
        g += A[:, :, None, None, None] * s
        for mu in range(4):
            dg[mu] += A[:, :, None, None, None] * (w[mu] * c)
            for nu in range(4):
                ddg[mu, nu] += A[:, :, None, None, None] * (
                    -w[mu] * w[nu] * s)
    return g, dg, ddg


def admissible(g):
    """Signature (-+++): positive lapse^2 and positive definite gamma."""
    gam = np.moveaxis(g[1:, 1:], (0, 1), (-2, -1))
    ev = np.linalg.eigvalsh(gam)
    if ev.min() < 0.3:
        return False
    gamu = np.linalg.inv(gam)
    bd = np.moveaxis(g[0, 1:], 0, -1)
    a2 = np.einsum('...i,...ij,...j->...', bd, gamu, bd) - g[0, 0]
    return a2.min() > 0.3


def exact_inputs(spec, param, Lambda):
    """All 3+1 inputs + T for an exact solution, plus the exact reference."""
    g, dg, ddg = eval_metric(spec, param)
    cur = refgr.curvature(g, dg, ddg, Lambda)
    s31 = refgr.split31(g, dg)
    inputs = {'alpha': s31['alpha'], 'dtalpha': s31['dtalpha'],
              'betaup3': s31['betaup3'], 'dtbetaup3': s31['dtbetaup3'],
              'gammadown3': s31['gammadown3'], 'Kdown3': s31['Kdown3'],
              'Tdown4': cur['Tdown4']}
    return inputs, {'g': g, 'cur': cur, 's31': s31}


# --------------------------------------------------------------------------
# OFF class: smooth but unconstrained fields
# --------------------------------------------------------------------------

def _smooth(npr, X, Y, Z, amp, kmax, base=0.0):
    out = np.full(X.shape, base, dtype=float)
    for _ in range(2):
        k = npr.uniform(-kmax, kmax, 3)
        out += amp * npr.uniform(-1, 1) * np.sin(
            k[0] * X + k[1] * Y + k[2] * Z + npr.uniform(0, 6.28))
    return out


def off_inputs(spec, param):
    """Arbitrary smooth alpha, beta, gamma, K, fluid fields (off-shell)."""
    npr = np.random.Generator(np.random.PCG64(spec['npseed']))
    X, Y, Z = coords(param)
    kmax = spec['kmax']
    sm = lambda amp, base=0.0: _smooth(npr, X, Y, Z, amp, kmax, base)  # noqa
    gam = np.empty((3, 3) + X.shape)
    K = np.empty((3, 3) + X.shape)
    for i in range(3):
        for j in range(i, 3):
            gam[i, j] = gam[j, i] = sm(0.08, 1.0 if i == j else 0.0)
            K[i, j] = K[j, i] = sm(0.2)
    inputs = {'alpha': sm(0.1, 1.0), 'dtalpha': sm(0.1),
              'betaup3': np.array([sm(0.1), sm(0.1), sm(0.1)]),
              'dtbetaup3': np.array([sm(0.1), sm(0.1), sm(0.1)]),
              'gammadown3': gam, 'Kdown3': K}
    vel = np.array([sm(0.15), sm(0.15), sm(0.15)])
    v2 = np.einsum('i...,ij...,j...->...', vel, gam, vel)
    rho0 = sm(0.3, 1.0)
    if spec.get('rho0_zero_region'):
        rho0 = np.where(X > np.median(X), rho0, 0.0)
    fluid = {'rho0': rho0, 'eps': sm(0.05, 0.1), 'press': sm(0.02, 0.05),
             'w_lorentz': 1.0 / np.sqrt(1.0 - v2),
             'velx': vel[0], 'vely': vel[1], 'velz': vel[2]}
    return inputs, fluid


# --------------------------------------------------------------------------
# presentation of the same spacetime through different input keys
# --------------------------------------------------------------------------

COMPONENTS = {
    'gammadown3': ['gxx', 'gxy', 'gxz', 'gyy', 'gyz', 'gzz'],
    'Kdown3': ['kxx', 'kxy', 'kxz', 'kyy', 'kyz', 'kzz'],
    'betaup3': ['betax', 'betay', 'betaz'],
    'dtbetaup3': ['dtbetax', 'dtbetay', 'dtbetaz'],
}
_SYM = [(0, 0), (0, 1), (0, 2), (1, 1), (1, 2), (2, 2)]


def present(inputs, how):
    """how: {key: 'tensor' | 'components' | 'both'} -> dict for rel.data."""
    out = {}
    for k, v in inputs.items():
        mode = how.get(k, 'tensor')
        if k in ('gammadown3', 'Kdown3') and mode in ('components', 'both'):
            for name, (i, j) in zip(COMPONENTS[k], _SYM):
                out[name] = np.array(v[i, j])
        if k in ('betaup3', 'dtbetaup3') and mode in ('components', 'both'):
            for name, i in zip(COMPONENTS[k], range(3)):
                out[name] = np.array(v[i])
        if k not in COMPONENTS or mode in ('tensor', 'both'):
            out[k] = np.array(v)
    return out
