"""simkit - deterministic simulation kit for robynlm/aurel.

One integer (VERIF_SEED) decides every run.  See /verif/DESIGN.md section 2.
"""
ENGINE_VERSION = 1
