#!/venv/bin/python
"""Markdown table of /verif/seeded/*/meta.json (pasted into DESIGN.md 10.5)."""
import glob, json, os
rows = []
for f in sorted(glob.glob(os.path.join(os.path.dirname(__file__), '..', 'seeded', '*', 'meta.json'))):
    m = json.load(open(f))
    checks = []
    for c, v in sorted(m['checks_run'].items()):
        sig = (v['sigs'][0].replace('sig=', '') if v['sigs'] else '-')
        checks.append(f"{c}: {'CAUGHT' if v['rc'] == 1 else ('missed' if v['rc'] == 0 else 'rc=%d' % v['rc'])}"
                      + (f" (`{sig}`" + (f" +{len(v['sigs'])-1}" if len(v['sigs']) > 1 else '') + ')' if v['rc'] == 1 else ''))
    rows.append(f"| {m['name']} | {m['breaks_property']} | {m.get('needs_to_manifest','')} | {'; '.join(checks)} |")
print('| seeded change | property | needs, to manifest | quick check result |')
print('|---|---|---|---|')
print('\n'.join(rows))
