#!/venv/bin/python
"""Regenerate /verif/MANIFEST.json from the table below and validate it."""
import json
import os

VERIF = os.path.dirname(os.path.dirname(os.path.abspath(__file__)))

NA = {
 'C04': "pure function of the input fields and FD configuration (4D connection/curvature vs definitions): no schedule, history, stored state, second party, clock or fault for a simulator to control; DESIGN.md section 6",
 'C05': "pure helper functions of (field, metric, shift): nothing stateful or fault-dependent to simulate; DESIGN.md section 6",
 'C06': "convergence statement about a pure function of the input spacetime: no history/fault in it; DESIGN.md section 6",
 'C07': "a fixed linear map per (order, boundary, N, axis): decided by algebra, not by runs; DESIGN.md section 6",
 'C08': "pure pointwise algebra for every input; DESIGN.md section 6",
 'C09': "pure function of the fluid inputs; DESIGN.md section 6",
 'C16': "pure function of (N, min, spacing); floating-point rounding is deterministic, not a fault; DESIGN.md section 6",
 'C17': "pure functions of (t,x,y,z) in the bundled solution modules; DESIGN.md section 6",
 'C19': "pure function of the input fields (kinematics of Eulerian observers); DESIGN.md section 6",
 'C20': "pure functions (harmonics, interpolation, mode extraction); DESIGN.md section 6",
}

# id -> (engine, technique, level text, level note, design ref)
CLAIMED = {}


def claim(pid, engine, technique, text, note, ref):
    CLAIMED[pid] = (engine, technique, text, note, ref)


claim('C13', 'iosim',
      'deterministic simulation with fault injection: seeded save/read histories with injected I/O errors (h5py seam: ENOSPC at create, EIO/EACCES at open/delete) and failing calls vs an in-memory reference model (old/new/absent after a failed save); ddmin-minimised replay files',
      "Seeded search over histories of save_data/read_data calls (overwrites, subsets, unsorted/ragged/None data, path variants, 3 PYTHONHASHSEED classes) against the real functions on a real (tmpfs) directory; every READ is compared entry by entry with a last-write-wins reference map and argument objects are digested before/after each call. In 30% of the runs one h5py call inside a save/read fails (n-th create_dataset / open / delete, before or after it took effect) or a save names a variable that is not in the dictionary: entries the failed save targeted may then be old, new or absent - never anything else - and untouched entries must be unaffected. The caller also scribbles on arrays it got back or had saved (stored data must not change) and keeps others (which must never be altered by later calls). Sampling, not proof: a clean batch is evidence over the stated history family.",
      "Trusted: h5py/tmpfs, the 60-line reference map, the generator's restriction to it-values present in data['it'].",
      'DESIGN.md section 4 (C13)')

claim('C11', 'etsim+iosim',
      'deterministic simulation: seeded simulated Einstein-Toolkit writer (process decomposition, layouts, crash/restart overlap) + real readers under seeded enumeration order and hash seeds, injected read errors (h5py seam), cell-level ground-truth oracle',
      "Seeded search over simulated ET runs (1-4 restarts with overlapping iterations, 1-2 levels, 1-30 processes in tensor-product / hierarchical / k-d decompositions, permuted chunk numbering, the 4 file layouts and key variants, empty restarts) read back through the real aurel.reading code under a seeded directory-enumeration order and 3 PYTHONHASHSEED classes. Every returned cell is compared with the writer's ground truth, in which each value encodes (variable, restart, level, iteration, i, j, k). In 30% of the runs one file open inside a read or catalogue call fails (EIO): that call may raise, every later call must be exact. A second simulation of the same name may be read in between; 3D output may be single precision. Sampling, not proof.",
      "Trusted: the etsim writer model reproduces what Carpet writes as far as aurel reads it (validated against the four repository fixtures' attributes); h5py/tmpfs.",
      'DESIGN.md section 4 (C11), 3.3')
claim('C12', 'etsim+iosim',
      'deterministic simulation: seeded histories of cached/uncached read_data calls on a simulated run, injected I/O errors while the cache is written or read (h5py seam), ground-truth oracle + audit of every cache dataset after every call',
      "Seeded search over histories of 2-8 read_data calls (split_per_it True/False interleaved; iteration/variable/level/restart subsets; tensor names vs component names; biased to partially filled caches) on a simulated multi-restart ET run starting from an empty cache. After every call the returned arrays are compared with ground truth and every dataset of every all_iterations/it_<n>.hdf5 is audited against the (variable, iteration, level, restart) it is filed under, so a poisoned cache is reported at the call that wrote it. In 30% of the runs one h5py call of a read fails (ENOSPC at the n-th create_dataset, EIO/EACCES at the n-th open): the failed call may raise or (where the catalogue skips an unreadable restart) lose data, but it never returns wrong cells, the audit holds unconditionally, and every later call is exact again. Further swarm ingredients: reads from the checkpoints (usecheckpoints=True) interleaved with cached reads on runs with single-precision 3D output, a second simulation of the same name under another root read in between, and (20% of multi-restart runs) reads with skip_last=True while the simulated run is still going on, writer events between the reads. Sampling, not proof.",
      "Trusted: etsim model (as C11), h5py/tmpfs. Only variables present in the simulation are requested.",
      'DESIGN.md section 4 (C12)')
claim('C18', 'etsim+iosim',
      'deterministic simulation: seeded interleaving of a simulated ET writer (output/checkpoint/crash/restart events) with catalogue calls; injected read errors inside catalogue calls (h5py seam); ground truth, file<->memory round trip and incremental-vs-fresh-scan oracles',
      "Seeded schedules interleave writer events of a simulated ET run with iterations()/read_iterations()/get_content() calls (skip_last protocol), with simulation names and paths drawn from a hostile token alphabet, 4 layouts, empty restarts, seeded enumeration order and 3 hash seeds. Each returned catalogue is compared with the writer's ground truth, iterations.txt/content.txt are parsed back and compared with what was returned in memory, the incrementally built catalogue is compared with one fresh scan of a pristine copy, and every generated dataset key / file name / .par file is parsed back. In 30% of the runs one file open inside a catalogue call fails: that call may raise or skip the restart it could not read; what it recorded is modelled as uncertain until the next call completes, and every later result (incl. the final comparison with a fresh scan) must be exact. File numbers of per-process output may have gaps. Sampling, not proof.",
      "Trusted: etsim model; call-granularity interleaving is exact only under the documented protocol (skip_last=True while the writer runs). 'overall' is checked independently only in the regular single-stride case.",
      'DESIGN.md section 4 (C18)')

_CORE_NOTE = "Trusted: NumPy/h5py; the reference model (a fresh AurelCore with clean-up disabled, asked only the one request) and, for exact-solution inputs, the independent refgr oracle (validated against aurel to 1e-8 on data where both constructions are right). Physical-branch keys are compared only on on-shell inputs with truncation-aware tolerances; ill-conditioned comparisons are counted as inconclusive."
claim('C01', 'coresim',
      'deterministic simulation: seeded guard-aware request histories x seeded eviction knobs (fault = loss of cached state at points the caller does not control) and injected allocation failures inside requests (n-th nested computation / n-th call of an aurel function via sys.settrace / n-th einsum via a numpy proxy, counted from the start or the end of the request) vs a fresh no-eviction reference instance; ddmin-minimised replay files',
      "Seeded search over (generated non-flat spacetime presented through a seeded input set) x (cache knobs: clean-up period 1..20, memory threshold 1..40 scalars or default, importance overrides) x (guard-aware history of GET/HELPER/SET_IMPORTANCE ops). After every op the returned value or exception is compared with a fresh instance that holds only the inputs and is asked only that request. Eviction fires inside nested computations in most runs. About 7% of the requests carry one injected allocation failure; the failed request promises nothing, every later request is compared as usual. Inputs may be supplied after the caller looked at their default; helper arguments may be temporaries; a second AurelCore object on the same grid (another spacetime) may be asked something in between. Sampling, not proof.",
      _CORE_NOTE, 'DESIGN.md section 4 (C01)')
claim('C02', 'coresim+timesim+iosim',
      'deterministic simulation: seeded request / over_time / save-read histories with a byte-checksum + read-only-flag registry of every array and argument object supplied or returned, re-verified after every op (incl. ops that fail through an injected fault)',
      "65% of runs: the C01 workload with a registry of every array the user supplied (inputs, helper arguments) or an earlier request returned (strong references, so they outlive eviction): checksums recomputed after every op and every registered array flagged read-only so that an in-place write raises at its source line; TOUCH_ALL ops (pure hits on everything cached) hand out all cached arrays. 15%: the over_time workload of C14 with the per-step input arrays registered the same way and vars/estimates/data arguments digested before and after each call. 12%: the save_data/read_data workload of C13 with argument digests and a registry of the arrays read_data returned; 8%: read_data on simulated Einstein Toolkit output (argument digests). Sampling, not proof.",
      _CORE_NOTE + " Arrays cached internally but never handed to the caller are outside C02 (covered by C01's AUDIT op).", 'DESIGN.md section 4 (C02), 10.2')
claim('C03', 'coresim',
      'deterministic simulation: same histories at maximal eviction pressure and injected allocation failures, with bookkeeping invariants checked after every op and every clean-up',
      "The C01 workload weighted to maximal pressure (period 1-3, thresholds of a few scalars, importance overrides incl. 0) with inputs frozen by freeze_data / load_data (and by over_time inside C14), incl. inputs supplied after the caller looked at their default and requests that fail midway (injected allocation failure). Invariants after every op: frozen entries present, same object, same bytes; age table subset of cache; entries replaced only after an eviction; clean-up raises nothing and makes <= (n+2)^2 size evaluations (bounded progress); watchdog never fires. Sampling, not proof.",
      _CORE_NOTE, 'DESIGN.md section 4 (C03)')
claim('C10', 'coresim',
      'deterministic simulation: history prefixes select the cache state that decides which Weyl construction runs; invariants evaluated on each reached state against an independent exact-GR reference',
      "Seeded (exact-solution spacetime: HOM, long-wavelength ON, vacuum Kasner) x tetrad x vacuum flag x cache knobs x history prefix (nothing cached / Riemann cached / Riemann cached then evicted / Weyl before Riemann / E-B first / random / an allocation failure late inside the request that builds the Weyl tensor or one of its ingredients). On the reached state: Weyl vs exact, the other construction on a second instance, Riemann unchanged, trace-free + symmetries, E/B symmetric/trace-free/equal to normal-frame contractions, E_u/B_u, tetrad orthonormality, Psi = contractions with the returned null tetrad, I and J independent of the orthonormal tetrad. Sampling over the stated family; the algebraic clauses add no claim beyond it.",
      _CORE_NOTE, 'DESIGN.md section 4 (C10)')
claim('C14', 'timesim',
      'deterministic simulation: seeded row order x temporal key x partition of the requests over successive over_time calls x cache knobs x a call that fails midway (a user function raises at a seeded invocation) and is run again, vs harness-side per-step recomputation on fresh instances',
      "Tables of 1-6 distinct time steps (genuine time series of a generated metric, or independent off-shell slices) in seeded row order, request lists of built-in and custom variables and estimates partitioned over 1-4 successive over_time calls, aggressive cache knobs in rel_kwargs; aurel.core.AurelCore is rebound to an observing subclass so that every instance created inside over_time is monitored (evictions, frozen entries). Final table: keys == single-call table, rows sorted with all columns permuted together, inputs preserved, every variable == fresh per-step computation, every estimate == estimator(returned array) (estimators written down independently), arguments untouched - also after a call that failed midway, which is then repeated; afterwards an ordinary call on another table must be unaffected by anything the history left in the process. Input columns may have non-native byte order. Sampling, not proof.",
      _CORE_NOTE + " A split is a call sequence whose last call carries the full estimate list.", 'DESIGN.md section 4 (C14)')
claim('C15', 'symsim',
      'deterministic simulation: seeded request orders (cache state selects the branch) x simplify flag x generated metric family x requests interrupted between caching and post-processing (n-th sympy.simplify / progress message raises) and then repeated, vs an independent pointwise full-sum reference at seeded rational points',
      "Generated symbolic metrics (dim 2-4; diagonal, non-diagonal, conformally flat; polynomial/rational/exp entries) x simplify flag x seeded request sequences with repeats over the ten quantities. After every request the returned object is evaluated at 3 rational points and compared with textbook full-sum tensors computed pointwise with exact/40-digit arithmetic. simplify=True only where sympy finishes (2-D, diagonal 3-D); runs that exceed the time budget are counted as inconclusive. In 30% of the runs some requests are interrupted inside the n-th simplify call (simplify=True) or progress message (verbose=True); the interrupted request promises nothing, every later one is compared as usual. Sampling, not proof.",
      "Trusted: sympy differentiation of metric entries and exact arithmetic; equality tested at points, not symbolically.", 'DESIGN.md section 4 (C15)')


def main():
    props = [json.loads(l) for l in open(os.path.join(VERIF, 'properties.jsonl'))]
    ids = [p['id'] for p in props]
    checks = []
    for pid in ids:
        if pid in CLAIMED and os.path.exists(
                os.path.join(VERIF, 'simkit', 'props', pid + '.py')):
            eng, tech, text, note, ref = CLAIMED[pid]
            checks.append({
                'property_id': pid,
                'quick_cmd': f'./vcheck {pid} --tier quick',
                'thorough_cmd': f'./vcheck {pid} --tier thorough',
                'evidence_file': f'/verif/evidence/{pid}.json',
                'replay_cmd_template': f'./vcheck {pid} --replay {{path}}',
                'engine': eng,
                'level_claimed': {'category': 'exploration', 'text': text,
                                  'design_ref': ref},
                'level_note': note,
                'technique': tech,
            })
    claimed = {c['property_id'] for c in checks}
    na = []
    for pid in ids:
        if pid in claimed:
            continue
        if pid in NA:
            na.append({'property_id': pid, 'reason': 'not applicable to deterministic simulation: ' + NA[pid]})
        else:
            na.append({'property_id': pid, 'reason': 'simulable (see DESIGN.md section 4) but its check is not built/registered yet in this commit; nothing is claimed for it'})
    engines = {}
    for c in checks:
        engines.setdefault(c['engine'], []).append(c['property_id'])
    man = {
        'version': 1,
        'setup_cmd': './vcheck --setup',
        'hooks': {
            'guard': 'AUREL_VERIF (unused: no hook was added to /repo; all seams are harness-side rebinding/subclassing)',
            'enable': 'nothing to enable; checks import aurel from /repo/src (editable install) as it is',
            'baseline_off_cmd': 'cd /repo && /venv/bin/python -m pytest -ra -q -p no:cacheprovider --timeout=900 --continue-on-collection-errors',
            'source_commits': [],
            'add_only': True,
        },
        'engines': [{'name': e, 'path': f'/verif/simkit', 'serves_properties': ps,
                     'kind_free_text': 'seeded deterministic simulation engine (own generator + ddmin + replay files)'}
                    for e, ps in sorted(engines.items())],
        'checks': checks,
        'not_applicable': na,
        'notes': "No hook exists, so the guard-off baseline is the plain pinned suite (tools/baseline.py runs it and compares with BASELINE.json stable_pass). All checks: ./vcheck <ID> --tier quick|thorough; VERIF_SEED honoured; exit 0 held / 1 VIOLATION / 2 harness error. Genuine defects repaired in /repo as 'fix:' commits are recorded in /verif/known_findings.json (status fixed, suppress nothing).",
    }
    with open(os.path.join(VERIF, 'MANIFEST.json'), 'w') as f:
        json.dump(man, f, indent=1)
    try:
        import jsonschema
        jsonschema.validate(man, json.load(open('/root/.vp/MANIFEST.schema.json')))
        print('MANIFEST valid;', len(checks), 'checks,', len(na), 'not claimed')
    except ImportError:
        print('written (jsonschema not importable here)')


if __name__ == '__main__':
    main()
