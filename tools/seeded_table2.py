#!/venv/bin/python
"""Markdown table of the seeded changes with their LATEST evaluation:
seeded/<name>/recheck.json (tools/recheck_seeded.sh, current checks) if it
exists, else meta.json (tools/seed_eval.py at the time the change was kept).
Used for DESIGN.md 11.6."""
import glob
import json
import os
import sys

HERE = os.path.dirname(os.path.abspath(__file__))
NEEDS = {
 'C01-4A': 'two extraction radii; Psi4_lm interrupted after the first radius (partial dict pre-registered in data), then any later Psi4_lm',
 'C01-4B': 'any request that raises after some nested calculations (roll-back deletes everything stamped since the request began, inputs included), then any later request',
 'C02-4A': 'read_data, keep the array; the same it_N.hdf5 rewritten with other values (same shape/dtype); read_data of it again (read_direct into the array handed out earlier)',
 'C02-4B': 'per-step input arrays with non-native byte order and a non-empty vars list (byteswap in place)',
 'C03-4A': 'frozen inputs; a request that fails midway after >= 1 nested calculation; a later request',
 'C03-4B': 'rel[k] looked at before k is supplied (default computed and still cached), then rel.data[k] = ...; freeze_data(); enough later calculations',
 'C10-4A': 'Riemann not cached, non-zero magnetic part, a MemoryError exactly in the second magnetic einsum of the E/B construction (swallowed, term applied twice)',
 'C10-4B': 'Weyl cached before the electric part is first requested, non-zero shift',
 'C11-4A': 'group-per-file + file-per-process layout of an unknown group; transient OSError on the first open while content.txt is first built; any later read',
 'C11-4B': 'default split_per_it=True; cache partially filled by an earlier call on a subset of iterations (component, then tensor at more iterations)',
 'C12-4A': 'an I/O error during a cache write (shared scratch file left behind); then a cached read of another variable at an iteration never cached; then the first variable there',
 'C12-4B': 'a cached call that raises after one variable was read (queue not flushed); then a cached call at another rl; then the first variable at that rl',
 'C13-4A': 'a save that raises inside the write loop (lock file left), then a read of that iteration: every variable None',
 'C13-4B': 'one process: read (i,v,r), modify the returned array in place, read again without a save in between',
 'C14-4A': 'unsorted input table; estimates-only call in which an estimator raises on a column that is not the last; retry on the same dict',
 'C14-4B': 'a custom estimator named like a predefined one; that call aborted while steps are processed; any later ordinary call with that estimate name',
 'C15-4A': 'a request interrupted between caching and mirroring (inside the final simplify / progress message), then the same or a dependent quantity again',
 'C15-4B': 'simplify=False; Einstein_down, then Ricci_down from the cache',
 'C18-4A': 'grouped output of an unknown group; transient OSError in the first uncached get_content scan; a later call without overwrite',
 'C18-4B': 'per-process output whose file numbers are not exactly 0..N-1 (or a single file that is not file_0); a second get_content call served from content.txt',
 'C01-5A': 'two AurelCore objects with the same grid shape and different spacetimes in one process, requests interleaved',
 'C01-5B': 'helper arguments that are temporaries (c*v): a later call with another field of the same shape and index string, no clean-up in between (CPython reuses the address)',
 'C02-5A': 'load_data(sim, i), some requests, load_data(sim, j) on the same object (copyto into the caller\'s arrays)',
 'C02-5B': 'ET data, non-empty vars, a visited restart whose catalogue entry lacks a requested variable (caller\'s vars list shortened)',
 'C03-5A': 'Weyl_Psi4r/i supplied and frozen; rel.tetrad (or another option) set to a different value on the live object; then Psi4_lm / Weyl_Psi',
 'C03-5B': 'an input assigned by hand before load_data (the only freezing call), read once, then enough unrelated calculations',
 'C10-5A': 'two live AurelCore objects with different K_ij on the same FiniteDifference object, used interleaved',
 'C10-5B': 'non-default tetrad; Psi4_lm requested before Weyl_Psi / Weyl_invariants',
 'C11-5A': 'two simulation directories with the same simulation name read in one process in the order X, Y, X',
 'C11-5B': 'pieces that do not tile the box (a process file lost): full-shape array with uninitialised cells instead of an exception',
 'C12-5A': 'two simulation directories with the same name read with split_per_it=True in one process (same restart/iteration/level/variable)',
 'C12-5B': 'an iteration that is both a checkpoint and a 3D-output iteration, 3D output differing from the checkpoint (single precision); usecheckpoints read first, then an ordinary cached read',
 'C13-5A': 'an overwriting save of an (iteration, level) that already has a t, data[t] different, explicit vars not naming t',
 'C13-5B': 'an earlier save stored (i,v,r); a later save of i covers every dataset of that file with None for v at i (file truncated)',
 'C14-5A': 'two over_time calls in one process, the earlier passing a value-affecting AurelCore option, the later omitting it',
 'C14-5B': 'three related calls reusing one dict of custom functions (entries deleted from the caller\'s dict when already a column)',
 'C15-5A': 'rel["gdown"] (default) looked at, then rel.data["gdown"] = g, then any Christoffel/curvature request',
 'C15-5B': 'two objects of the same dimension in one process: first a diagonal metric, later a non-diagonal one',
 'C18-5A': 'simfactory\'s output-000k-active link while restart k runs; iterations(skip_last=True) called then and again after k finished',
 'C18-5B': 'param obtained once from parameters() and reused; a new restart appears between two iterations(param) calls',
}


def fmt(checks):
    out = []
    for c, v in sorted(checks.items()):
        sigs = v.get('sigs', [])
        if isinstance(sigs, str):
            sigs = sigs.split()
        sig = sigs[0].replace('sig=', '') if sigs else '-'
        res = ('CAUGHT' if v['rc'] == 1 else
               ('missed' if v['rc'] == 0 else 'rc=%d' % v['rc']))
        if v['rc'] == 1:
            res += f' (`{sig}`' + (f' +{len(sigs) - 1}' if len(sigs) > 1
                                    else '') + ')'
        out.append(f'{c}: {res}')
    return '; '.join(out)


def main(only=None):
    rows = []
    caught = total = 0
    for d in sorted(glob.glob(os.path.join(HERE, '..', 'seeded', '*', ''))):
        name = os.path.basename(d.rstrip('/'))
        if only and not any(f'-{r}' in name for r in only):
            continue
        mf, rf = d + 'meta.json', d + 'recheck.json'
        if not os.path.exists(mf):
            continue
        m = json.load(open(mf))
        checks, src = m.get('checks_run', {}), 'first evaluation'
        if os.path.exists(rf):
            r = json.load(open(rf))
            if r.get('applies') is False:
                src = 'patch no longer applies (lines changed by a later fix)'
            else:
                note = r.pop('_note', None)
                checks, src = r, 'current checks'
                if note:
                    src += ' - ' + note
        key = '-'.join(name.split('-')[:2])
        needs = NEEDS.get(key) or m.get('needs_to_manifest', '')
        total += 1
        if any(v.get('rc') == 1 for v in checks.values()):
            caught += 1
        elif 'no longer' in src:
            total -= 1
        rows.append(f"| {name} | {m['breaks_property']} | {needs} | "
                    f"{fmt(checks)} | {src} |")
    print('| seeded change | property | needs, to manifest | quick check '
          'result | evaluated with |')
    print('|---|---|---|---|---|')
    print('\n'.join(rows))
    print(f'\n{caught} of {total} caught by at least one listed check.')


if __name__ == '__main__':
    main(sys.argv[1:] or None)
