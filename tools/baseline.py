#!/venv/bin/python
"""Run the repository's pinned test-suite (guard off - there are no hooks)
and compare with /root/.vp/BASELINE.json stable_pass.  Exit 0 iff every
stable_pass test still passes."""
import json, os, subprocess, sys, tempfile
import xml.etree.ElementTree as ET
base = json.load(open('/root/.vp/BASELINE.json'))
out = tempfile.mktemp(suffix='.xml', dir='/dev/shm' if os.path.isdir('/dev/shm') else None)
cmd = base['cmd'].replace('<file>', out)
env = dict(os.environ); env.pop('AUREL_VERIF', None)
tree = os.environ.get('AUREL_TREE')      # run the suite of another checkout
if tree:
    cmd = cmd.replace('cd /repo', 'cd ' + tree)
    env['PYTHONPATH'] = tree + '/src'
p = subprocess.run(cmd, shell=True, env=env, stdout=subprocess.PIPE, stderr=subprocess.STDOUT, text=True)
passed = set()
for tc in ET.parse(out).getroot().iter('testcase'):
    if not any(c.tag in ('failure', 'error', 'skipped') for c in tc):
        passed.add(f"{tc.get('classname')}::{tc.get('name')}")
os.remove(out)
missing = [t for t in base['stable_pass'] if t not in passed]
print(p.stdout.strip().splitlines()[-1])
print(f'stable_pass={len(base["stable_pass"])} passed_now={len(passed)} missing={len(missing)}')
for m in missing[:20]: print('  MISSING', m)
sys.exit(1 if missing else 0)
