#!/bin/sh
# Re-evaluate every kept seeded change against the current checks (quick tier).
#   tools/reeval_seeded.sh            patches /repo for the duration of each check
#   SEED_VIA_SRC=1 tools/reeval_seeded.sh   uses a scratch worktree instead
cd "$(dirname "$0")/.."
for d in seeded/*/; do
  name=$(basename "$d")
  # REEVAL_SKIP="name1 name2 ..." skips changes that were already re-evaluated
  case " $REEVAL_SKIP " in *" $name "*) continue;; esac
  prop=$(echo "$name" | cut -d- -f1)
  extra=""
  case "$name" in
    C02-B-*) extra="C14";; C01-A-*) extra="C02";; C11-2A-*|C11-B-*) extra="C12";; C03-3B-*) extra="C02";;
    C18-B-*) extra="C11";; C03-2B-*) extra="C14";; C01-B-*|C03-A-*|C03-B-*) extra="";;
  esac
  cp "$d/patch.diff" /tmp/reeval-$$.diff; cp "$d/demo.py" /tmp/reeval-$$.py
  cp "$d/meta.json" /tmp/reeval-$$.meta
  tools/seed_eval.py "$name" /tmp/reeval-$$.diff /tmp/reeval-$$.py "$prop" $extra 2>&1 | grep -E "^\[$prop"
  # keep the descriptive fields of the previous meta
  /venv/bin/python - "$d/meta.json" /tmp/reeval-$$.meta <<'PY'
import json, sys
new, old = sys.argv[1], sys.argv[2]
try:
    n = json.load(open(new)); o = json.load(open(old))
    for k in ('needs_to_manifest', 'source'):
        if o.get(k): n[k] = o[k]
    json.dump(n, open(new, 'w'), indent=1)
except Exception as e:
    print('meta merge failed', e)
PY
done
rm -f /tmp/reeval-$$.*
