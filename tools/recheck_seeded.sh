#!/bin/sh
# Lean re-evaluation of kept seeded changes against the CURRENT checks:
# the change was confirmed when it was first evaluated (suite green, demo
# fails with / passes without); here it is only applied to a scratch worktree
# of /repo HEAD and the quick check(s) are run against it through
# VERIF_AUREL_SRC (so /repo and /verif/evidence stay untouched).
#   tools/recheck_seeded.sh [name-glob]        e.g. 'C1[0-3]-*'
# Result: seeded/<name>/recheck.json {check: {rc, sigs}}.
cd "$(dirname "$0")/.."
pat=${1:-*}
export VERIF_EVIDENCE_DIR=/dev/shm/recheck-evidence
# one minimised replay per change is enough here
export VERIF_MAX_SHRINK=${VERIF_MAX_SHRINK:-1} VERIF_MAX_REPORT=${VERIF_MAX_REPORT:-2}
for d in seeded/$pat/; do
  name=$(basename "$d")
  [ -f "$d/patch.diff" ] || continue
  # RECHECK_SKIP_DONE=1: keep results that are already there
  [ -n "$RECHECK_SKIP_DONE" ] && [ -f "$d/recheck.json" ] && continue
  prop=$(echo "$name" | cut -d- -f1)
  checks="$prop"
  case "$name" in
    C02-B-*) checks="C02 C14";; C01-A-*) checks="C01 C02";;
    C11-2A-*|C11-B-*) checks="C11 C12";; C03-3B-*) checks="C03 C02";;
    C18-B-*) checks="C18 C11";; C03-2B-*) checks="C03 C14";;
    C11-4A-*) checks="C11 C18";; C02-4A-*) checks="C02 C13";;
    C02-4B-*) checks="C02 C14";; C01-5A-*) checks="C01 C14";;
    C02-5B-*) checks="C02 C11";; C11-5A-*) checks="C11 C12";;
  esac
  wt=/tmp/recheck-$$
  git -C /repo worktree add -q --detach $wt HEAD
  if (cd $wt && (git apply "$OLDPWD/$d/patch.diff" 2>/dev/null || git apply --3way "$OLDPWD/$d/patch.diff" 2>/dev/null)) \
     && ! grep -q '^<<<<<<<' $wt/src/aurel/*.py; then
    out="{"
    for c in $checks; do
      log=$(VERIF_AUREL_SRC=$wt/src ./vcheck $c --tier quick 2>&1); rc=$?
      sigs=$(printf '%s\n' "$log" | grep -o 'sig=[^ ]*' | head -6 | tr '\n' ' ')
      echo "$name $c rc=$rc $sigs"
      out="$out\"$c\": {\"rc\": $rc, \"sigs\": \"$sigs\"},"
    done
    echo "${out%,}}" > "$d/recheck.json"
  else
    echo "$name PATCH-DOES-NOT-APPLY (the lines were changed by a later fix)"
    echo '{"applies": false}' > "$d/recheck.json"
  fi
  git -C /repo worktree remove --force $wt
done
