#!/bin/sh
# No-alarm sweep (DESIGN 2.8): every registered quick check under many
# VERIF_SEEDs on the unchanged tree must exit 0 without a VIOLATION line.
#   tools/noalarm.sh "<seeds>" [IDs...]
seeds=${1:-"1 2 3 4 5"}; shift
ids=${@:-"C01 C02 C03 C10 C11 C12 C13 C14 C15 C18"}
cd "$(dirname "$0")/.."
bad=0
for s in $seeds; do
  for id in $ids; do
    out=$(VERIF_SEED=$s ./vcheck $id --tier quick 2>&1); rc=$?
    nv=$(printf '%s\n' "$out" | grep -c '^VIOLATION')
    echo "seed=$s $id rc=$rc violations=$nv $(printf '%s\n' "$out" | tail -1)"
    if [ $rc -ne 0 ] || [ $nv -ne 0 ]; then bad=$((bad+1)); printf '%s\n' "$out" | grep -E "VIOLATION|sig=|HARNESS|^  " | head -12; fi
  done
done
echo "noalarm: $bad failing invocations"
[ $bad -eq 0 ]
