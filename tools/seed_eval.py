#!/venv/bin/python
"""Evaluate one seeded change (a patch produced by an independent sub-agent).

  tools/seed_eval.py <name> <patch.diff> <demo.py> <property> [check ids...]

1. scratch worktree of /repo HEAD under /tmp: apply the patch, run the pinned
   test-suite (must still pass), run the demo with the patch (must fail) and
   without it (must pass);
2. apply the patch to /repo itself, run the quick checks, undo it straight
   afterwards (git -C /repo checkout -- .);
3. write /verif/seeded/<name>/{patch.diff, demo.py, meta.json}.
Scratch worktree and its build output are removed at the end.
"""
import json, os, shutil, subprocess, sys, time

VERIF = os.path.dirname(os.path.dirname(os.path.abspath(__file__)))


def sh(cmd, **kw):
    return subprocess.run(cmd, shell=True, stdout=subprocess.PIPE,
                          stderr=subprocess.STDOUT, text=True, **kw)


def main():
    os.environ['VERIF_EVIDENCE_DIR'] = '/dev/shm/seed-eval-evidence'
    name, patch, demo, prop = sys.argv[1:5]
    checks = sys.argv[5:] or [prop]
    runs = os.environ.get('SEED_RUNS')
    wt = f'/tmp/seedcheck-{os.getpid()}'
    meta = {'name': name, 'breaks_property': prop, 'checks_run': {},
            'evaluated_at_repo_head': sh('git -C /repo rev-parse --short HEAD').stdout.strip()}
    if not os.environ.get('SEED_VIA_SRC'):
        assert sh('git -C /repo status --porcelain').stdout.strip() == '', '/repo not clean'
    sh(f'git -C /repo worktree add -q --detach {wt} HEAD')
    try:
        r = sh(f'git -C {wt} apply --3way {patch} || git -C {wt} apply {patch}')
        st = sh(f'git -C {wt} status --porcelain').stdout
        if 'src/' not in st:
            print('PATCH DID NOT APPLY', r.stdout); meta['applies'] = False
            return meta
        meta['applies'] = True
        sh(f'git -C {wt} diff HEAD > /tmp/seed-{os.getpid()}.diff')
        env = dict(os.environ, AUREL_TREE=wt)
        t = sh(f'{VERIF}/tools/baseline.py', env=env)
        meta['suite_with_patch'] = t.stdout.strip().splitlines()[-2:]
        meta['suite_passes_with_patch'] = (t.returncode == 0)
        d1 = sh(f'cd {wt} && PYTHONPATH={wt}/src OMP_NUM_THREADS=1 timeout 600 /venv/bin/python {demo}')
        meta['demo_with_patch_rc'] = d1.returncode
        meta['demo_with_patch_tail'] = d1.stdout.strip().splitlines()[-3:]
        sh(f'git -C {wt} reset -q --hard HEAD')
        d0 = sh(f'cd {wt} && PYTHONPATH={wt}/src OMP_NUM_THREADS=1 timeout 600 /venv/bin/python {demo}')
        meta['demo_without_patch_rc'] = d0.returncode
        confirmed = (meta['suite_passes_with_patch'] and d1.returncode != 0
                     and d0.returncode == 0)
        meta['confirmed'] = confirmed
        print(f'[{name}] suite ok={meta["suite_passes_with_patch"]} demo with={d1.returncode} without={d0.returncode} confirmed={confirmed}', flush=True)
        if confirmed and os.environ.get('SEED_VIA_SRC'):
            # /repo is busy (a background sweep uses it): point the checks at
            # the scratch worktree with the change applied instead of
            # patching /repo; the library under test is the same tree
            sh(f'git -C {wt} apply /tmp/seed-{os.getpid()}.diff')
            meta['applied_to'] = 'scratch worktree via VERIF_AUREL_SRC'
            for cid in checks:
                t0 = time.time()
                extra = f'--runs {runs}' if runs else '--tier quick'
                c = sh(f'cd {VERIF} && VERIF_AUREL_SRC={wt}/src VERIF_SEED='
                       f'{os.environ.get("VERIF_SEED", "0")} ./vcheck {cid} {extra}')
                sigs = [l.strip() for l in c.stdout.splitlines() if l.strip().startswith('sig=')]
                meta['checks_run'][cid] = {
                    'rc': c.returncode, 'wall_s': round(time.time() - t0),
                    'violations': [l for l in c.stdout.splitlines() if l.startswith('VIOLATION')][:6],
                    'sigs': [s.split(' ')[0] for s in sigs][:8],
                    'first_msg': next((l.strip() for l in c.stdout.splitlines()
                                       if l.startswith('  ') and 'sig=' not in l), '')[:400]}
                print(f'[{name}] check {cid}: rc={c.returncode} sigs={meta["checks_run"][cid]["sigs"]}', flush=True)
    finally:
        sh(f'git -C /repo worktree remove --force {wt}')
        shutil.rmtree(wt, ignore_errors=True)
    if not meta.get('confirmed'):
        return meta
    if os.environ.get('SEED_VIA_SRC'):
        realpatch = f'/tmp/seed-{os.getpid()}.diff'
        meta['caught_by'] = sorted(c for c, v in meta['checks_run'].items() if v['rc'] == 1)
        out = f'{VERIF}/seeded/{name}'
        os.makedirs(out, exist_ok=True)
        shutil.copy(realpatch, f'{out}/patch.diff')
        shutil.copy(demo, f'{out}/demo.py')
        os.remove(realpatch)
        return meta
    # ---- run the checks against the change applied to /repo ---------------
    realpatch = f'/tmp/seed-{os.getpid()}.diff'
    a = sh(f'git -C /repo apply {realpatch}')
    assert a.returncode == 0, a.stdout
    try:
        for cid in checks:
            t0 = time.time()
            extra = f'--runs {runs}' if runs else '--tier quick'
            c = sh(f'cd {VERIF} && VERIF_SEED={os.environ.get("VERIF_SEED", "0")} ./vcheck {cid} {extra}')
            sigs = [l.strip() for l in c.stdout.splitlines() if l.strip().startswith('sig=')]
            meta['checks_run'][cid] = {
                'rc': c.returncode, 'wall_s': round(time.time() - t0),
                'violations': [l for l in c.stdout.splitlines() if l.startswith('VIOLATION')][:6],
                'sigs': [s.split(' ')[0] for s in sigs][:8],
                'first_msg': next((l.strip() for l in c.stdout.splitlines()
                                   if l.startswith('  ') and 'sig=' not in l), '')[:400]}
            print(f'[{name}] check {cid}: rc={c.returncode} sigs={meta["checks_run"][cid]["sigs"]}', flush=True)
    finally:
        sh('git -C /repo checkout -- .')
        assert sh('git -C /repo status --porcelain').stdout.strip() == ''
    meta['caught_by'] = sorted(c for c, v in meta['checks_run'].items() if v['rc'] == 1)
    out = f'{VERIF}/seeded/{name}'
    os.makedirs(out, exist_ok=True)
    shutil.copy(realpatch, f'{out}/patch.diff')
    shutil.copy(demo, f'{out}/demo.py')
    os.remove(realpatch)
    return meta


if __name__ == '__main__':
    m = main()
    name = sys.argv[1]
    if m.get('confirmed'):
        notes = os.environ.get('SEED_NOTES', '')
        m['needs_to_manifest'] = notes
        with open(f'{VERIF}/seeded/{name}/meta.json', 'w') as f:
            json.dump(m, f, indent=1)
    print(json.dumps(m, indent=1)[:1500])
